//! Container round trips at spec level (C01), container streams vs lookups (C02), coverage exactness
//! (C03) and metadata (C17) for versatiles / pmtiles / mbtiles / tar / directory.
use crate::memsrc::MemSource;
use crate::util::*;
use crate::Ctx;
use anyhow::Result;
use std::collections::{BTreeMap, HashMap};
use versatiles_container::{get_reader, write_to_filename};
use versatiles_core::tilejson::TileJSON;
use versatiles_core::types::*;
use versatiles_core::utils::compress;

pub type TileMap = HashMap<(u8, u32, u32), Vec<u8>>;

pub struct V { pub kind: String, pub input: String, pub detail: String }

fn payload(rng: &mut Rng, kind: u64, id: u64) -> Vec<u8> {
	let size = match kind % 9 { 0 => 1, 1 => 999, 2 => 1000, 3 => 1001, 4 => 17, 5 => 70_000, 6 => 300, 7 => 2, _ => 64 } as usize;
	let mut v = rng.bytes(size);
	// make it unique and non-trivial, unless a duplicate is intended by the caller
	for (i, b) in id.to_le_bytes().iter().enumerate() { if i < v.len() { v[i] = *b; } }
	v
}

/// tile sets: sparse/dense, zoom gaps, both sides of the 256-block grid, duplicates, sizes around 1000
pub fn gen_tiles(rng: &mut Rng, big: bool) -> TileMap { let shape = rng.below(7); gen_tiles_shape(rng, big, shape) }

/// `shape` 0..7 selects the structure of the tile set (callers iterate over all shapes)
pub fn gen_tiles_shape(rng: &mut Rng, big: bool, shape: u64) -> TileMap {
	let mut m: TileMap = HashMap::new();
	let mut id = rng.next() % 1_000_000;
	let mut put = |m: &mut TileMap, rng: &mut Rng, z: u8, x: u32, y: u32, dup: Option<&Vec<u8>>| {
		id += 1;
		let data = match dup { Some(d) => d.clone(), None => { let k = rng.below(9); payload(rng, k, id) } };
		m.insert((z, x, y), data);
	};
	match shape {
		0 => { // few scattered tiles with zoom gaps
			for _ in 0..rng.range(1, 8) { let z = *rng.pick(&[0u8, 1, 3, 4, 7, 9, 10, 14]); let mx = (1u64 << z) - 1; let (a, b) = (rng.below(mx + 1) as u32, rng.below(mx + 1) as u32); put(&mut m, rng, z, a, b, None); }
		}
		1 => { // across the 256 block border at z = 9..10
			let z = rng.range(9, 10) as u8;
			// the same small payloads occur on both sides of the border (de-duplication is a matter of one block)
			let (sea, land) = (vec![3u8; 120], vec![4u8; 999]);
			for x in 253..=258u32 { for y in 254..=257u32 { match rng.below(8) { 0 | 1 => {} 2 | 3 => put(&mut m, rng, z, x, y, Some(&sea)), 4 => put(&mut m, rng, z, x, y, Some(&land)), _ => put(&mut m, rng, z, x, y, None) } } }
			put(&mut m, rng, z, 255, 255, Some(&sea)); put(&mut m, rng, z, 256, 255, Some(&sea)); put(&mut m, rng, z, 255, 256, Some(&sea));
		}
		2 => { // dense low pyramid
			for z in 0..=rng.range(1, 4) as u8 { let mx = (1u32 << z) - 1; for x in 0..=mx { for y in 0..=mx { if rng.chance(9, 10) { put(&mut m, rng, z, x, y, None); } } } }
		}
		3 => { // many duplicates (ocean tiles) below and above the dedup threshold
			let z = rng.range(3, 6) as u8; let mx = (1u32 << z) - 1;
			let ocean_small = vec![7u8; 200]; let ocean_1000 = vec![9u8; 1000]; let ocean_999 = vec![5u8; 999];
			for x in 0..=mx.min(12) { for y in 0..=mx.min(12) {
				match rng.below(5) { 0 => put(&mut m, rng, z, x, y, Some(&ocean_small)), 1 => put(&mut m, rng, z, x, y, Some(&ocean_1000)), 2 => put(&mut m, rng, z, x, y, Some(&ocean_999)), 3 => put(&mut m, rng, z, x, y, None), _ => {} }
			} }
		}
		4 => { // irregular: extreme rows not in the extreme or middle columns
			let z = rng.range(4, 8) as u8; let mx = (1u32 << z) - 1;
			let x0 = rng.below(mx as u64 / 4) as u32; let x1 = mx - rng.below(mx as u64 / 4) as u32; let xc = (x0 + x1) / 2;
			put(&mut m, rng, z, x0, mx / 2, None); put(&mut m, rng, z, x1, mx / 2 + 1, None); put(&mut m, rng, z, xc, mx / 2, None);
			let xo = if x0 + 1 < xc { x0 + 1 } else { xc + 1 };
			put(&mut m, rng, z, xo, 0, None); put(&mut m, rng, z, xo.min(mx), mx, None);
		}
		5 => { // sparse tiles in distant blocks (empty blocks in between)
			let z = rng.range(10, 12) as u8;
			put(&mut m, rng, z, 5, 5, None); put(&mut m, rng, z, 600, 5, None);
			// (a third tile keeps block column 1 empty and the level box small enough for the model's slot enumeration)
			if rng.chance(1, 2) { let y = 10 + rng.below(30) as u32; put(&mut m, rng, z, 700, y, None); }
		}
		7 => { // a dense rectangle of more than 1024 tiles on one level (readers that page through their store), tiny payloads
			let z = rng.range(6, 7) as u8; let (x0, y0) = (rng.below(20) as u32, rng.below(20) as u32);
			let (w, h) = (36 + rng.below(6) as u32, 32 + rng.below(6) as u32);
			for x in x0..x0 + w { for y in y0..y0 + h { if !(x == x0 + 3 && y == y0 + 5) { m.insert((z, x, y), vec![((x * 31 + y * 7) % 251) as u8, (x % 256) as u8, (y % 256) as u8]); } } }
		}
		_ => { // single tile, borders of level 0 / deep level
			let z = *rng.pick(&[0u8, 1, 20, 30]); let mx = ((1u64 << z) - 1) as u32;
			let (a, b) = (*rng.pick(&[0, mx]), *rng.pick(&[0, mx])); put(&mut m, rng, z, a, b, None);
		}
	}
	if big { // more than 16384 tiles: PMTiles leaf directories
		let z = 8; for x in 0..140u32 { for y in 0..130u32 { put(&mut m, rng, z, x, y, None); } }
	}
	m
}

fn tilejson(rng: &mut Rng) -> TileJSON {
	// a full document: strings over Unicode, list and byte values, custom keys, zoom range, bounds, center, vector_layers
	let names = ["plain", "Ünïcödé ✓", "quote\" and \\ backslash", "line\nbreak\ttab", "emoji 😀 astral"];
	let mut o: Vec<String> = vec![format!("\"name\":{}", jstr(*rng.pick(&names))), "\"description\":\"harness metadata\"".into(), "\"attribution\":\"© someone\"".into(), "\"tilejson\":\"3.0.0\"".into()];
	if rng.chance(2, 3) { o.push(format!("\"minzoom\":{}", rng.pick(&[0u8, 1, 2, 3, 5, 9]))); }
	if rng.chance(2, 3) { o.push(format!("\"maxzoom\":{}", rng.pick(&[2u8, 5, 9, 14, 22, 30]))); }
	if rng.chance(1, 2) { o.push(format!("\"bounds\":{}", rng.pick(&["[-180,-85.05112877980659,180,85.05112877980659]", "[-10.5,-20.25,30.75,40.125]", "[13,52,14,53]", "[-180,-90,180,90]"]))); }
	if rng.chance(1, 2) { o.push(format!("\"center\":{}", rng.pick(&["[0,0,3]", "[13.4,52.5,10]", "[-122.25,37.5,0]"]))); }
	if rng.chance(1, 2) { o.push("\"version\":\"1.2.3\"".into()); }
	if rng.chance(1, 2) { o.push("\"tiles\":[\"https://example.org/{z}/{x}/{y}\",\"https://b.example.org/{z}/{x}/{y}\"]".into()); }
	if rng.chance(1, 2) { o.push(format!("\"fillzoom\":{}", rng.below(20))); }
	if rng.chance(1, 2) { o.push(format!("\"x-custom\":{}", jstr(*rng.pick(&names)))); }
	if rng.chance(1, 3) { o.push("\"vector_layers\":[{\"id\":\"roads\",\"fields\":{\"kind\":\"String\",\"lanes\":\"Number\"},\"minzoom\":2,\"maxzoom\":9,\"description\":\"d\"},{\"id\":\"water\",\"fields\":{}}]".into()); }
	let text = format!("{{{}}}", o.join(","));
	TileJSON::try_from(text.as_str()).unwrap_or_else(|e| panic!("harness TileJSON {text} rejected: {e:#}"))
}

/// C17: `back` (read from a container) against `doc` (what was written): everything unchanged, except that the zoom range and the
/// bounds may be narrowed - never widened, and never narrowed beyond the stored coverage
fn tilejson_diff(doc: &TileJSON, back: &TileJSON, cov: &TileBBoxPyramid) -> Option<String> {
	let (od, ob) = (doc.as_object(), back.as_object());
	let get = |o: &versatiles_core::json::JsonObject, k: &str| -> Option<String> { o.get(k).map(|v| v.stringify()) };
	let mut keys: Vec<String> = od.iter().map(|(k, _)| k.clone()).chain(ob.iter().map(|(k, _)| k.clone())).collect(); keys.sort(); keys.dedup();
	for k in keys {
		match k.as_str() {
			"minzoom" | "maxzoom" | "bounds" => {}
			_ => if get(&od, &k) != get(&ob, &k) { return Some(format!("{k}: wrote {:?}, read {:?}", get(&od, &k), get(&ob, &k))); }
		}
	}
	let (dmin, dmax) = (doc.values.get_byte("minzoom"), doc.values.get_byte("maxzoom"));
	let (bmin, bmax) = (back.values.get_byte("minzoom"), back.values.get_byte("maxzoom"));
	let (cmin, cmax) = (cov.get_zoom_min(), cov.get_zoom_max());
	if let Some(d) = dmin { match bmin { None => return Some(format!("minzoom {d} lost")), Some(b) => if b < d || b > d.max(cmin.unwrap_or(d)) { return Some(format!("minzoom: wrote {d}, coverage starts at {cmin:?}, read {b}")); } } }
	else if let Some(b) = bmin { if Some(b) != cmin { return Some(format!("minzoom: none written, coverage starts at {cmin:?}, read {b}")); } }
	if let Some(d) = dmax { match bmax { None => return Some(format!("maxzoom {d} lost")), Some(b) => if b > d || b < d.min(cmax.unwrap_or(d)) { return Some(format!("maxzoom: wrote {d}, coverage ends at {cmax:?}, read {b}")); } } }
	else if let Some(b) = bmax { if Some(b) != cmax { return Some(format!("maxzoom: none written, coverage ends at {cmax:?}, read {b}")); } }
	let eps = 1e-6;
	let cg = cov.get_geo_bbox();
	match (&doc.bounds, &back.bounds) {
		(Some(d), None) => return Some(format!("bounds {d:?} lost")),
		(Some(d), Some(b)) => {
			if b.0 < d.0 - eps || b.1 < d.1 - eps || b.2 > d.2 + eps || b.3 > d.3 + eps { return Some(format!("bounds widened: wrote {d:?}, read {b:?}")); }
			if let Some(c) = &cg { let i = (d.0.max(c.0), d.1.max(c.1), d.2.min(c.2), d.3.min(c.3)); if i.0 <= i.2 && i.1 <= i.3 && (b.0 > i.0 + eps || b.1 > i.1 + eps || b.2 < i.2 - eps || b.3 < i.3 - eps) { return Some(format!("bounds narrowed beyond the coverage: wrote {d:?}, coverage {c:?}, read {b:?}")); } }
		}
		(None, Some(b)) => if let Some(c) = &cg { if (b.0 - c.0).abs() > eps || (b.1 - c.1).abs() > eps || (b.2 - c.2).abs() > eps || (b.3 - c.3).abs() > eps { return Some(format!("bounds: none written, coverage {c:?}, read {b:?}")); } },
		(None, None) => {}
	}
	None
}

pub const CONTAINERS: [&str; 5] = ["versatiles", "pmtiles", "mbtiles", "tar", "dir"];

pub struct RoundTrip<'a> { pub rt: &'a tokio::runtime::Runtime, pub dir: std::path::PathBuf, pub lines: std::cell::RefCell<Vec<String>>, pub indep: bool }

impl<'a> RoundTrip<'a> {
	/// writes `tiles` with the given container and parameters, reopens, checks everything
	pub fn run(&self, name: &str, container: &str, tiles: &TileMap, format: TileFormat, comp: TileCompression, tj: &TileJSON, rng: &mut Rng, viol: &mut Vec<V>, stats: &mut BTreeMap<String, u64>) {
		let desc = format!("{container} {format:?} {comp:?} tiles={} set={name}", tiles.len());
		// the source hands out blobs that are already compressed as it declares
		let stored: TileMap = tiles.iter().map(|(c, d)| (*c, compress(Blob::from(d.clone()), &comp).unwrap().into_vec())).collect();
		let src = MemSource::new("mem", stored.iter().map(|(c, d)| (*c, d.clone())).collect(), format, comp).with_tilejson(tj.clone()).with_yields(tiles.len() % 2);
		let expect_pyramid = src.parameters.bbox_pyramid.clone();
		let path = if container == "dir" { let p = self.dir.join(format!("{name}_dir")); let _ = std::fs::remove_dir_all(&p); std::fs::create_dir_all(&p).unwrap(); p } else { self.dir.join(format!("{name}.{container}")) };
		let pstr = path.to_str().unwrap().to_string();
		let mut src = src;
		let w = guarded(|| self.rt.block_on(write_to_filename(&mut src, &pstr)));
		match w {
			Err(m) => { viol.push(V { kind: "write-panic".into(), input: desc.clone(), detail: m }); return; }
			Ok(Err(e)) => {
				let msg = format!("{e:#}");
				// format/compression pairs a container does not accept are not violations
				if msg.contains("not supported") { *stats.entry(format!("unsupported:{container}")).or_insert(0) += 1; return; }
				viol.push(V { kind: "write-error".into(), input: desc.clone(), detail: msg }); return;
			}
			Ok(Ok(())) => {}
		}
		*stats.entry(format!("written:{container}")).or_insert(0) += 1;
		if self.indep { self.independent_decode(&desc, container, &path, &stored, &expect_pyramid, format, comp, viol, stats); }
		let r = guarded(|| self.rt.block_on(get_reader(&pstr)));
		let reader = match r {
			Err(m) => { viol.push(V { kind: "open-panic".into(), input: desc.clone(), detail: m }); return; }
			Ok(Err(e)) => { viol.push(V { kind: "open-error".into(), input: desc.clone(), detail: format!("{e:#}") }); return; }
			Ok(Ok(r)) => r,
		};
		self.verify(&desc, container, reader.as_ref(), &stored, &expect_pyramid, format, comp, Some(tj), rng, viol, stats);
		if container == "dir" { let _ = std::fs::remove_dir_all(&path); } else { let _ = std::fs::remove_file(&path); }
	}
}

impl<'a> RoundTrip<'a> {
	/// everything observable through TilesReaderTrait against the expected mapping
	#[allow(clippy::too_many_arguments)]
	pub fn verify(&self, desc: &str, container: &str, reader: &dyn TilesReaderTrait, stored: &TileMap, expect_pyramid: &TileBBoxPyramid, format: TileFormat, comp: TileCompression, tj: Option<&TileJSON>, rng: &mut Rng, viol: &mut Vec<V>, stats: &mut BTreeMap<String, u64>) {
		let desc = desc.to_string();
		let p = reader.get_parameters();
		if container == "mbtiles" { for z in 0..32u8 { let rows: Vec<String> = stored.iter().filter(|((tz, _, _), _)| *tz == z).map(|((_, x, y), _)| format!("{x}:{}", ((1u64 << z) - 1) as u32 - y)).collect(); if rows.is_empty() || rows.len() > 300 { continue; }
			let mut rows = rows; rows.sort(); let mut b = p.bbox_pyramid.get_level_bbox(z).clone(); if !b.is_empty() { use versatiles_core::utils::TransformCoord; b.flip_y(); }
			self.lines.borrow_mut().push(format!("mbrows {} => {}", rows.join(","), if b.is_empty() { "none".to_string() } else { format!("{} {} {} {}", b.x_min, b.y_min, b.x_max, b.y_max) })); } }
		if p.tile_format != format || p.tile_compression != comp {
			viol.push(V { kind: "parameters".into(), input: desc.clone(), detail: format!("declared {:?}/{:?}, got {:?}/{:?}", format, comp, p.tile_format, p.tile_compression) });
		}
		// non-empty tiles only (an empty payload is "no tile" for some containers)
		let nonempty: HashMap<(u8, u32, u32), &Vec<u8>> = stored.iter().filter(|(_, d)| !d.is_empty()).map(|(c, d)| (*c, d)).collect();
		// coverage: contains every tile; for the formats that derive it from stored tiles: exact
		for z in 0..32u8 {
			let b = p.bbox_pyramid.get_level_bbox(z);
			let eb = expect_pyramid.get_level_bbox(z);
			for ((tz, x, y), _) in nonempty.iter().filter(|((tz, _, _), _)| *tz == z) {
				if !b.contains2(&TileCoord2::new(*x, *y)) { viol.push(V { kind: "coverage-misses-tile".into(), input: desc.clone(), detail: format!("level {z} coverage {b:?} does not contain stored tile {tz}/{x}/{y}") }); break; }
			}
			let exact_expected = matches!(container, "mbtiles" | "pmtiles" | "tar" | "dir");
			if exact_expected && (b.is_empty() != eb.is_empty() || (!b.is_empty() && b != eb)) {
				viol.push(V { kind: "coverage-not-exact".into(), input: desc.clone(), detail: format!("level {z}: advertised {b:?}, bounding box of stored tiles {eb:?}") });
			}
		}
		// lookups over the stored coordinates and a superset (neighbours, other levels)
		let mut probes: Vec<(u8, u32, u32)> = nonempty.keys().cloned().collect();
		for (z, x, y) in nonempty.keys().take(200) { let mx = ((1u64 << z) - 1) as u32;
			probes.push((*z, x.wrapping_add(1).min(mx), *y)); probes.push((*z, *x, y.saturating_sub(1))); if *z < 30 { probes.push((z + 1, *x, *y)); } if *z > 0 { probes.push((z - 1, x / 2, y / 2)); } }
		if probes.len() > 3000 { let keep: Vec<_> = (0..3000).map(|_| probes[rng.below(probes.len() as u64) as usize]).collect(); probes = keep; }
		for (z, x, y) in probes {
			let r = guarded(|| self.rt.block_on(reader.get_tile_data(&TileCoord3 { x, y, z })));
			let exp = nonempty.get(&(z, x, y));
			let ok = match (&r, exp) { (Ok(Ok(Some(b))), Some(d)) => b.as_slice() == d.as_slice(), (Ok(Ok(None)), None) => true, _ => false };
			if !ok { viol.push(V { kind: "lookup".into(), input: desc.clone(), detail: format!("tile {z}/{x}/{y}: expected {}, got {}", exp.map_or("nothing".into(), |d| format!("{} bytes", d.len())),
				match &r { Ok(Ok(Some(b))) => format!("{} bytes (content differs: {})", b.len(), exp.map_or(true, |d| d.as_slice() != b.as_slice())), Ok(Ok(None)) => "nothing".into(), Ok(Err(e)) => format!("error {e:#}"), Err(m) => format!("panic {m}") }) }); break; }
		}
		// streams: every level box, plus sub-boxes, empty encodings and boxes beyond coverage
		let mut boxes: Vec<TileBBox> = p.bbox_pyramid.iter_levels().cloned().collect();
		let levels: Vec<u8> = boxes.iter().map(|b| b.level).collect();
		for &z in levels.iter().take(4) {
			let full = TileBBox::new_full(z).unwrap();
			if full.count_tiles() <= 1 << 20 { boxes.push(full); }
			boxes.push(TileBBox::new_empty(z).unwrap());
			let mut e = TileBBox::new_full(z).unwrap(); e.set_empty(); boxes.push(e);
			let lb = p.bbox_pyramid.get_level_bbox(z);
			let mx = lb.max;
			boxes.push(TileBBox::new(z, lb.x_min, lb.y_min, lb.x_min, lb.y_min).unwrap());
			boxes.push(TileBBox::new(z, lb.x_min.saturating_sub(300), lb.y_min.saturating_sub(300), (lb.x_max.saturating_add(300)).min(mx), (lb.y_max.saturating_add(300)).min(mx)).unwrap());
			if z > 0 { boxes.push(TileBBox::new(z - 1, 0, 0, 0, 0).unwrap()); }
		}
		for b in boxes {
			if b.count_tiles() > 1 << 21 { continue; }
			let bb = b.clone();
			let r = guarded(|| self.rt.block_on(async { reader.get_bbox_tile_stream(bb).await.collect().await }));
			match r {
				Err(m) => { viol.push(V { kind: "stream-panic".into(), input: desc.clone(), detail: format!("box {b:?}: {m}") }); break; }
				Ok(items) => {
					let mut got: Vec<((u8, u32, u32), Vec<u8>)> = items.into_iter().map(|(c, bl)| ((c.z, c.x, c.y), bl.into_vec())).collect();
					got.sort();
					let mut exp: Vec<((u8, u32, u32), Vec<u8>)> = nonempty.iter().filter(|((z, x, y), _)| *z == b.level && b.contains2(&TileCoord2::new(*x, *y))).map(|(c, d)| (*c, (*d).clone())).collect();
					exp.sort();
					if got != exp { viol.push(V { kind: "stream".into(), input: desc.clone(), detail: format!("box {b:?}: stream delivered {} tiles, lookups inside the box give {}", got.len(), exp.len()) }); break; }
				}
			}
			*stats.entry("streams".into()).or_insert(0) += 1;
		}
		// metadata (C17): what was given comes back (bounds/zoom only narrowed)
		if let (true, Some(tj)) = (container != "mbtiles", tj) {
			*stats.entry("metadata".into()).or_insert(0) += 1;
			if let Some(d) = tilejson_diff(tj, reader.get_tilejson(), expect_pyramid) { viol.push(V { kind: "metadata".into(), input: format!("{desc} tilejson={}", tj.as_string()), detail: d }); }
		}
	}
}

impl<'a> RoundTrip<'a> {
	/// C01, second half: a decoder written from the published layout recovers the same mapping
	#[allow(clippy::too_many_arguments)]
	fn independent_decode(&self, desc: &str, container: &str, path: &std::path::Path, stored: &TileMap, pyramid: &TileBBoxPyramid, format: TileFormat, comp: TileCompression, viol: &mut Vec<V>, stats: &mut BTreeMap<String, u64>) {
		use crate::indep;
		let nonempty: TileMap = stored.iter().filter(|(_, d)| !d.is_empty()).map(|(c, d)| (*c, d.clone())).collect();
		let ext = format!("{}{}", format.extension(), comp.extension());
		let r: Result<(indep::TileMap, String)> = (|| Ok(match container {
			"versatiles" => { let d = indep::dec_versatiles(&std::fs::read(path)?)?;
				let fb = match format { TileFormat::BIN => 0x00u8, TileFormat::PNG => 0x10, TileFormat::JPG => 0x11, TileFormat::WEBP => 0x12, TileFormat::AVIF => 0x13, TileFormat::SVG => 0x14, TileFormat::PBF => 0x20, TileFormat::GEOJSON => 0x21, TileFormat::TOPOJSON => 0x22, TileFormat::JSON => 0x23 };
				let cb = match comp { TileCompression::Uncompressed => 0u8, TileCompression::Gzip => 1, TileCompression::Brotli => 2 };
				// correspondence with the Coq layout model: block grid and slot occupancy
				let slots: u64 = pyramid.iter_levels().map(|b| b.count_tiles()).sum();
				if nonempty.len() <= 400 && slots <= 60_000 {
					let lv: Vec<String> = pyramid.iter_levels().map(|b| format!("{}:{},{},{},{}", b.level, b.x_min, b.y_min, b.x_max, b.y_max)).collect();
					let mut tl: Vec<String> = nonempty.keys().map(|(z, x, y)| format!("{z},{x},{y}")).collect(); tl.sort();
					let mut bl: Vec<String> = d.blocks.iter().map(|b| format!("{},{},{},{},{},{},{}:{}", b.z, b.bx, b.by, b.x0, b.y0, b.x1, b.y1, rle(&b.occ))).collect(); bl.sort();
					self.lines.borrow_mut().push(format!("vtblocks {} {} => {}", lv.join(";"), if tl.is_empty() { "-".into() } else { tl.join(";") }, bl.join(";")));
				}
				// correspondence with the Coq block writer (append order, de-duplication below 1000 bytes): the
				// tile index entries of every small block, from the payloads in slot order
				for b in d.blocks.iter().filter(|b| b.occ.len() <= 400).take(40) {
					let w = (b.x1 - b.x0) as u32 + 1;
					let mut classes: Vec<&Vec<u8>> = vec![];
					let slots: Vec<String> = (0..b.occ.len() as u32).map(|i| { let c = (b.z, b.bx * 256 + b.x0 as u32 + i % w, b.by * 256 + b.y0 as u32 + i / w);
						match stored.get(&c) { None => "-".to_string(), Some(p) if p.len() < 4 => format!("h{}", if p.is_empty() { "-".into() } else { hex(p) }),
							Some(p) => { let k = classes.iter().position(|q| *q == p).unwrap_or_else(|| { classes.push(p); classes.len() - 1 }); format!("{}:{}", p.len(), k) } } }).collect();
					self.lines.borrow_mut().push(format!("vtindex {} => {}", slots.join(","), b.entries.iter().map(|(o, l)| format!("{o}+{l}")).collect::<Vec<_>>().join(",")));
				}
				(d.tiles, if d.format == fb && d.compression == cb { ext.clone() } else { format!("format byte {:#x} compression byte {}", d.format, d.compression) }) }
			"pmtiles" => { let d = indep::dec_pmtiles(&std::fs::read(path)?)?;
				let tt = match format { TileFormat::PBF => 1u8, TileFormat::PNG => 2, TileFormat::JPG => 3, TileFormat::WEBP => 4, TileFormat::AVIF => 5, _ => 0 };
				let tc = match comp { TileCompression::Uncompressed => 1u8, TileCompression::Gzip => 2, TileCompression::Brotli => 3 };
				if d.clustered && !d.in_order { viol.push(V { kind: "pmtiles-clustered-flag".into(), input: desc.into(), detail: "header says clustered = 1 but tile data is not stored in tile-id order".into() }); }
				(d.tiles, if d.tile_type == tt && d.tile_compression == tc { ext.clone() } else { format!("tile type {} compression {}", d.tile_type, d.tile_compression) }) }
			"tar" => { let (e, t, _) = indep::dec_tar(&std::fs::read(path)?)?; (t, e) }
			"dir" => { let (e, t) = indep::dec_directory(path)?; (t, e) }
			_ => { let (f, t) = indep::dec_mbtiles(path)?; (t, match (f.as_str(), format) { ("pbf", TileFormat::PBF) | ("png", TileFormat::PNG) | ("jpg", TileFormat::JPG) | ("webp", TileFormat::WEBP) => ext.clone(), _ => format!("metadata format {f:?}") }) }
		}))();
		*stats.entry("independent_decodes".into()).or_insert(0) += 1;
		match r {
			Err(e) => viol.push(V { kind: "layout".into(), input: desc.into(), detail: format!("a decoder written from the published layout cannot read the file: {e:#}") }),
			Ok((got, decl)) => {
				if decl != ext && !(container == "mbtiles") { viol.push(V { kind: "layout-declaration".into(), input: desc.into(), detail: format!("file declares {decl}, written as {ext}") }); }
				if container == "mbtiles" && decl != ext { viol.push(V { kind: "layout-declaration".into(), input: desc.into(), detail: format!("file declares {decl}, written as {ext}") }); }
				let got_ne: TileMap = got.into_iter().filter(|(_, d)| !d.is_empty()).collect();
				if got_ne != nonempty {
					let missing = nonempty.keys().filter(|k| !got_ne.contains_key(*k)).count(); let extra = got_ne.keys().filter(|k| !nonempty.contains_key(*k)).count();
					let differ = nonempty.iter().filter(|(k, d)| got_ne.get(*k).map_or(false, |g| g != *d)).count();
					viol.push(V { kind: "layout-content".into(), input: desc.into(), detail: format!("independent decoder: {missing} tiles missing, {extra} additional, {differ} with different bytes") });
				}
			}
		}
	}
}
/// C01: the PMTiles root / leaf directory split.  Bisects the number of tiles at which the writer stops
/// putting all entries into the root directory and round-trips the sizes around that boundary.
fn pmtiles_root_boundary(rtp: &RoundTrip, rng: &mut Rng, viol: &mut Vec<V>, stats: &mut BTreeMap<String, u64>, thorough: bool, tj: Option<&TileJSON>) {
	let all: Vec<((u8, u32, u32), Vec<u8>)> = { let mut seen = std::collections::HashSet::new(); let mut v = vec![];
		while v.len() < 13000 { let c = (13u8, rng.below(8192) as u32, rng.below(8192) as u32); if seen.insert(c) { let n = 1 + rng.below(60) as usize; v.push((c, rng.bytes(n))); } } v };
	let write = |n: usize| -> Option<(Vec<u8>, u64)> {
		let p = rtp.dir.join("boundary.pmtiles"); let _ = std::fs::remove_file(&p);
		let mut src = MemSource::new("mem", all[..n].to_vec(), TileFormat::PNG, TileCompression::Uncompressed);
		if let Some(t) = tj { src = src.with_tilejson(t.clone()); }
		match guarded(|| rtp.rt.block_on(write_to_filename(&mut src, p.to_str().unwrap()))) { Ok(Ok(())) => {} _ => return None }
		let b = std::fs::read(&p).ok()?; let leaf_len = u64::from_le_bytes(b[48..56].try_into().ok()?); Some((b, leaf_len)) };
	// largest n whose directory is root-only
	let (mut lo, mut hi) = (1usize, 5200usize);
	if write(hi).map_or(true, |w| w.1 == 0) { return; }
	while hi - lo > 1 { let mid = (lo + hi) / 2; match write(mid) { Some((_, 0)) => lo = mid, _ => hi = mid } }
	stats.insert("pmtiles_root_only_limit".into(), lo as u64);
	let around: Vec<usize> = if thorough { (lo.saturating_sub(60)..lo + 120).collect() } else { (lo.saturating_sub(6)..lo + 60).step_by(3).chain(lo.saturating_sub(2)..lo + 3).collect() };
	// sizes on both sides of the multiples of the leaf size (4096 entries): one, two, three and four leaves, the last
	// one full, nearly empty or holding a single entry
	let around: Vec<usize> = if tj.is_some() { (lo.saturating_sub(if thorough { 40 } else { 10 })..=lo + 2).step_by(if thorough { 1 } else { 2 }).collect() } else { around.into_iter().chain([4095usize, 4096, 4097, 4099, 5199, 8191, 8193, 8195, 12289, 12291, 12999]).chain(if thorough { (12280..12300).collect::<Vec<_>>() } else { vec![] }).collect() };
	for n in around {
		if n == 0 || n > all.len() { continue; }
		let desc = format!("pmtiles PNG Uncompressed tiles={n} (root-only limit of this set: {lo} tiles)");
		*stats.entry("boundary_roundtrips".into()).or_insert(0) += 1;
		let Some((bytes, _)) = write(n) else { viol.push(V { kind: "write-error".into(), input: desc, detail: "writer failed".into() }); continue; };
		let expect: crate::indep::TileMap = all[..n].iter().cloned().collect();
		match crate::indep::dec_pmtiles(&bytes) {
			Err(e) => viol.push(V { kind: "layout".into(), input: desc.clone(), detail: format!("a decoder written from the published layout cannot read the file: {e:#}") }),
			Ok(d) => if d.tiles != expect { viol.push(V { kind: "layout-content".into(), input: desc.clone(), detail: "independent decoder recovers a different mapping".into() }); }
		}
		match guarded(|| rtp.rt.block_on(versatiles_container::PMTilesReader::open_reader(Box::new(versatiles_core::io::DataReaderBlob::from(bytes.clone()))))) {
			Ok(Ok(r)) => {
				// the TileJSON the source handed over comes back (zoom range and bounds narrowed to the coverage at most)
				if let Some(doc) = tj { if let Some(d) = tilejson_diff(doc, r.get_tilejson(), &r.get_parameters().bbox_pyramid) { viol.push(V { kind: "metadata".into(), input: desc.clone(), detail: d }); } }
				for (c, d) in all[..n].iter().step_by(37) { let got = rtp.rt.block_on(r.get_tile_data(&TileCoord3 { x: c.1, y: c.2, z: c.0 })); if !matches!(&got, Ok(Some(b)) if b.as_slice() == d.as_slice()) { viol.push(V { kind: "lookup".into(), input: desc.clone(), detail: format!("tile {:?} is not returned intact", c) }); break; } } }
			other => viol.push(V { kind: "open-error".into(), input: desc.clone(), detail: format!("written container can not be opened again: {}", match other { Ok(Err(e)) => format!("{e:#}"), Err(m) => m, _ => String::new() }) }),
		}
	}
	let _ = std::fs::remove_file(rtp.dir.join("boundary.pmtiles"));
}
fn rle(s: &str) -> String { let mut o = String::new(); let b = s.as_bytes(); let mut i = 0; while i < b.len() { let mut j = i; while j < b.len() && b[j] == b[i] { j += 1; } o.push_str(&format!("{}x{}.", b[i] as char, j - i)); i = j; } o }

/// C17: many TileJSON documents through the four containers that store them, with small tile sets whose coverage starts
/// above and below the documents' zoom range
pub fn run_meta(ctx: &Ctx, col: &mut Collector) -> Result<()> {
	let rt = tokio::runtime::Builder::new_multi_thread().worker_threads(4).enable_all().build()?;
	let dir = std::fs::canonicalize(&ctx.out)?.join("metafiles");
	std::fs::create_dir_all(&dir)?;
	let mut viol: Vec<V> = Vec::new();
	let mut stats: BTreeMap<String, u64> = BTreeMap::new();
	let mut rng = Rng::new(ctx.seed ^ 0x7157);
	let rtp = RoundTrip { rt: &rt, dir: dir.clone(), lines: Default::default(), indep: false };
	for i in 0..(if ctx.thorough { 300 } else { 40 }) {
		let mut tiles = TileMap::new();
		let z0 = rng.below(6) as u8; let z1 = z0 + rng.below(4) as u8;
		for z in z0..=z1 { if z == z0 || z == z1 || rng.chance(2, 3) { for _ in 0..rng.range(1, 4) { let m = (1u64 << z) - 1; let n = 1 + rng.below(30) as usize; tiles.insert((z, rng.below(m + 1) as u32, rng.below(m + 1) as u32), rng.bytes(n)); } } }
		let tj = tilejson(&mut rng);
		for c in ["versatiles", "pmtiles", "tar", "dir"] {
			rtp.run(&format!("m{}_{i}", ctx.seed), c, &tiles, TileFormat::PBF, *rng.pick(&[TileCompression::Uncompressed, TileCompression::Gzip]), &tj, &mut rng, &mut viol, &mut stats);
			*stats.entry("metadata_roundtrips".into()).or_insert(0) += 1;
		}
	}
	// PMTiles archives whose root directory just fits / just does not fit in front of the metadata (the root is written last)
	{ let tj = tilejson(&mut rng); pmtiles_root_boundary(&rtp, &mut rng, &mut viol, &mut stats, ctx.thorough, Some(&tj)); }
	let _ = std::fs::remove_dir_all(&dir);
	for x in &viol { col.violation(&x.kind, &x.input, &x.input, &x.detail); }
	col.spec_cases += stats.get("metadata_roundtrips").copied().unwrap_or(0) + stats.get("boundary_roundtrips").copied().unwrap_or(0);
	for (k, v) in stats { col.bump(&k, v); }
	Ok(())
}

pub fn run(ctx: &Ctx, focus: &str) -> Result<()> {
	let mut col = Collector::new(&ctx.out)?;
	run_into(ctx, focus, &mut col)?;
	col.finish()
}

pub fn run_into(ctx: &Ctx, focus: &str, col: &mut Collector) -> Result<()> {
	let rt = tokio::runtime::Builder::new_multi_thread().worker_threads(4).enable_all().build()?;
	let dir = std::fs::canonicalize(&ctx.out)?.join("files");
	std::fs::create_dir_all(&dir)?;
	let mut viol: Vec<V> = Vec::new();
	let mut stats: BTreeMap<String, u64> = BTreeMap::new();
	let mut rng = Rng::new(ctx.seed ^ 0xF00D);
	let rtp = RoundTrip { rt: &rt, dir: dir.clone(), lines: Default::default(), indep: focus == "c01" };
	let n = if ctx.thorough { 120 } else { 14 };
	let mut all_coords: Vec<(u8, u32, u32)> = vec![];
	let combos: [(TileFormat, TileCompression); 7] = [
		(TileFormat::PBF, TileCompression::Gzip), (TileFormat::PNG, TileCompression::Uncompressed), (TileFormat::PBF, TileCompression::Brotli),
		(TileFormat::PBF, TileCompression::Uncompressed), (TileFormat::JPG, TileCompression::Uncompressed), (TileFormat::WEBP, TileCompression::Uncompressed), (TileFormat::BIN, TileCompression::Gzip)];
	for i in 0..n {
		let big = ctx.thorough && i % 40 == 7;
		let tiles = gen_tiles_shape(&mut rng, big, i as u64 % 8);
		*stats.entry(format!("shape{}_tiles", i % 8)).or_insert(0) += tiles.len() as u64;
		all_coords.extend(tiles.keys().cloned().take(60));
		let tj = tilejson(&mut rng);
		for c in CONTAINERS {
			let (f, k) = if c == "mbtiles" { combos[(i as usize) % 2] } else { combos[(i as usize + c.len()) % combos.len()] };
			rtp.run(&format!("s{}_{i}", ctx.seed), c, &tiles, f, k, &tj, &mut rng, &mut viol, &mut stats);
			*stats.entry("roundtrips".into()).or_insert(0) += 1;
		}
		*stats.entry(format!("tiles_{}", match tiles.len() { 0..=9 => "1-9", 10..=199 => "10-199", 200..=9999 => "200-9999", _ => "10000+" })).or_insert(0) += 1;
	}
	for l in rtp.lines.borrow().iter() { col.out.line(l); }
	if focus == "c01" { pmtiles_root_boundary(&rtp, &mut rng, &mut viol, &mut stats, ctx.thorough, None); }
	if focus == "c01" { let cs: Vec<(u8, u32, u32)> = all_coords.iter().cloned().take(3000).collect(); crate::pmcorr::lines(col, &mut rng, &cs, ctx.thorough); }
	let _ = std::fs::remove_dir_all(&dir);
	for x in &viol { col.violation(&x.kind, &x.input, &x.input, &x.detail); }
	col.spec_cases += stats.get("roundtrips").copied().unwrap_or(0);
	for (k, v) in stats { col.bump(&k, v); }
	Ok(())
}
