//! Decoders and encoders written for the harness from the published layouts (versatiles v02,
//! PMTiles v3, MBTiles 1.3, tar / directory naming) - no code of the repository's container
//! modules is used here; compression goes through the flate2 / brotli crates directly.
use crate::util::Rng;
use anyhow::{anyhow, bail, ensure, Result};
use std::collections::{BTreeMap, HashMap};
use std::io::{Read, Write};

pub type TileMap = HashMap<(u8, u32, u32), Vec<u8>>;

// ---------------------------------------------------------------- primitives
pub fn gunzip(d: &[u8]) -> Result<Vec<u8>> { let mut o = Vec::new(); flate2::read::GzDecoder::new(d).read_to_end(&mut o)?; Ok(o) }
pub fn gzip(d: &[u8]) -> Vec<u8> { let mut e = flate2::write::GzEncoder::new(Vec::new(), flate2::Compression::default()); e.write_all(d).unwrap(); e.finish().unwrap() }
pub fn unbrotli(d: &[u8]) -> Result<Vec<u8>> { let mut o = Vec::new(); brotli::Decompressor::new(d, 4096).read_to_end(&mut o)?; Ok(o) }
pub fn brotli_c(d: &[u8]) -> Vec<u8> { let mut o = Vec::new(); { let mut w = brotli::CompressorWriter::new(&mut o, 4096, 5, 20); w.write_all(d).unwrap(); } o }
fn be(b: &[u8]) -> u64 { b.iter().fold(0u64, |a, x| (a << 8) | *x as u64) }
fn le(b: &[u8]) -> u64 { b.iter().rev().fold(0u64, |a, x| (a << 8) | *x as u64) }
fn sl(b: &[u8], off: u64, len: u64) -> Result<&[u8]> { let (o, l) = (off as usize, len as usize); ensure!(o.checked_add(l).map_or(false, |e| e <= b.len()), "range {off}+{len} outside {} bytes", b.len()); Ok(&b[o..o + l]) }
pub fn put_varint(o: &mut Vec<u8>, mut v: u64) { loop { let b = (v & 0x7f) as u8; v >>= 7; if v == 0 { o.push(b); break; } o.push(b | 0x80); } }
fn get_varint(b: &[u8], p: &mut usize) -> Result<u64> { let mut v = 0u64; let mut s = 0; loop { ensure!(*p < b.len() && s < 70, "varint"); let x = b[*p]; *p += 1; v |= ((x & 0x7f) as u64) << s; if x < 0x80 { return Ok(v); } s += 7; } }

// ---------------------------------------------------------------- Hilbert ids (quadrant recursion)
fn hil(k: u32, x: u64, y: u64) -> u64 {
	if k == 0 { return 0; }
	let s = 1u64 << (k - 1);
	let (rx, ry) = ((x >= s) as u64, (y >= s) as u64);
	let (mut a, mut b) = (x % s, y % s);
	if ry == 0 { if rx == 1 { a = s - 1 - a; b = s - 1 - b; } std::mem::swap(&mut a, &mut b); }
	s * s * ((3 * rx) ^ ry) + hil(k - 1, a, b)
}
fn unhil(k: u32, t: u64) -> (u64, u64) {
	if k == 0 { return (0, 0); }
	let s = 1u64 << (k - 1);
	let q = t / (s * s);
	let (rx, ry) = match q { 0 => (0, 0), 1 => (0, 1), 2 => (1, 1), _ => (1, 0) };
	let (mut a, mut b) = unhil(k - 1, t % (s * s));
	if ry == 0 { std::mem::swap(&mut a, &mut b); if rx == 1 { a = s - 1 - a; b = s - 1 - b; } }
	(a + rx * s, b + ry * s)
}
pub fn zoom_base(z: u8) -> u64 { ((1u128 << (2 * z as u32)) / 3) as u64 }   // (4^z - 1) / 3
pub fn tile_id(z: u8, x: u32, y: u32) -> u64 { zoom_base(z) + hil(z as u32, x as u64, y as u64) }
pub fn id_tile(id: u64) -> (u8, u32, u32) { let mut z = 0u8; while z < 31 && zoom_base(z + 1) <= id { z += 1; } let (x, y) = unhil(z as u32, id - zoom_base(z)); (z, x as u32, y as u32) }

// ---------------------------------------------------------------- versatiles v02
#[derive(Debug, Clone)]
pub struct BlockDump { pub z: u8, pub bx: u32, pub by: u32, pub x0: u8, pub y0: u8, pub x1: u8, pub y1: u8, pub occ: String, pub entries: Vec<(u64, u64)> }
pub struct VtDecoded { pub format: u8, pub compression: u8, pub tiles: TileMap, pub blocks: Vec<BlockDump>, pub meta: Vec<u8> }
pub fn dec_versatiles(f: &[u8]) -> Result<VtDecoded> {
	ensure!(f.len() >= 66 && &f[0..14] == b"versatiles_v02", "magic");
	let (format, compression) = (f[14], f[15]);
	let (moff, mlen, boff, blen) = (be(&f[34..42]), be(&f[42..50]), be(&f[50..58]), be(&f[58..66]));
	let meta = if mlen > 0 { let m = sl(f, moff, mlen)?; match compression { 0 => m.to_vec(), 1 => gunzip(m)?, _ => unbrotli(m)? } } else { vec![] };
	let bi = unbrotli(sl(f, boff, blen)?)?;
	ensure!(bi.len() % 33 == 0, "block index length");
	let mut tiles = TileMap::new();
	let mut blocks = vec![];
	for d in bi.chunks(33) {
		let (z, bx, by) = (d[0], be(&d[1..5]) as u32, be(&d[5..9]) as u32);
		let (x0, y0, x1, y1) = (d[9], d[10], d[11], d[12]);
		let (off, tlen, ilen) = (be(&d[13..21]), be(&d[21..29]), be(&d[29..33]));
		ensure!(x0 <= x1 && y0 <= y1, "block bbox");
		let ti = unbrotli(sl(f, off + tlen, ilen)?)?;
		let (w, h) = ((x1 - x0) as usize + 1, (y1 - y0) as usize + 1);
		ensure!(ti.len() == 12 * w * h, "tile index length {} for {}x{}", ti.len(), w, h);
		let mut occ = String::new();
		let mut entries = vec![];
		for (i, e) in ti.chunks(12).enumerate() {
			let (to, tl) = (be(&e[0..8]), be(&e[8..12]));
			entries.push((to, tl));
			occ.push(if tl > 0 { '1' } else { '0' });
			if tl == 0 { continue; }
			let (x, y) = (bx * 256 + x0 as u32 + (i % w) as u32, by * 256 + y0 as u32 + (i / w) as u32);
			tiles.insert((z, x, y), sl(f, off + to, tl)?.to_vec());
		}
		blocks.push(BlockDump { z, bx, by, x0, y0, x1, y1, occ, entries });
	}
	Ok(VtDecoded { format, compression, tiles, blocks, meta })
}

/// layout freedoms: only blocks that hold tiles are listed (sparse index), a block's box may be any
/// box around its tiles (partial blocks), blocks and blobs in any order, padding between blobs,
/// identical payloads stored once
pub fn enc_versatiles(tiles: &TileMap, format: u8, compression: u8, meta: &[u8], rng: &mut Rng) -> Vec<u8> {
	let mut f = vec![0u8; 66];
	f[0..14].copy_from_slice(b"versatiles_v02"); f[14] = format; f[15] = compression;
	let zs: Vec<u8> = tiles.keys().map(|k| k.0).collect();
	f[16] = *zs.iter().min().unwrap_or(&0); f[17] = *zs.iter().max().unwrap_or(&0);
	for (i, v) in [-1800000000i32, -850511300, 1800000000, 850511300].iter().enumerate() { f[18 + 4 * i..22 + 4 * i].copy_from_slice(&v.to_be_bytes()); }
	if rng.chance(1, 2) { let k = rng.below(40) as usize; f.extend(rng.bytes(k)); }
	let (moff, mlen) = if meta.is_empty() { (0u64, 0u64) } else { let m = match compression { 0 => meta.to_vec(), 1 => gzip(meta), _ => brotli_c(meta) }; let o = f.len() as u64; f.extend(&m); (o, m.len() as u64) };
	let mut groups: BTreeMap<(u8, u32, u32), Vec<(u32, u32)>> = BTreeMap::new();
	for (z, x, y) in tiles.keys() { groups.entry((*z, x >> 8, y >> 8)).or_default().push((*x, *y)); }
	let mut keys: Vec<_> = groups.keys().cloned().collect();
	if rng.chance(1, 2) { keys.reverse(); }
	let mut defs = vec![];
	for (z, bx, by) in keys {
		let cs = &groups[&(z, bx, by)];
		let lim = if z >= 8 { 255u32 } else { (1u32 << z) - 1 };
		let (mut x0, mut y0, mut x1, mut y1) = (cs.iter().map(|c| c.0 & 255).min().unwrap(), cs.iter().map(|c| c.1 & 255).min().unwrap(), cs.iter().map(|c| c.0 & 255).max().unwrap(), cs.iter().map(|c| c.1 & 255).max().unwrap());
		match rng.below(3) { 0 => { x0 = 0; y0 = 0; x1 = lim; y1 = lim; } 1 => { x0 = x0.saturating_sub(rng.below(3) as u32); y1 = (y1 + rng.below(3) as u32).min(lim); } _ => {} }
		let off = f.len() as u64;
		let (w, h) = ((x1 - x0 + 1) as usize, (y1 - y0 + 1) as usize);
		let mut index = vec![(0u64, 0u32); w * h];
		let mut seen: HashMap<&[u8], (u64, u32)> = HashMap::new();
		let mut order: Vec<&(u32, u32)> = cs.iter().collect();
		if rng.chance(1, 2) { order.reverse(); }
		for (x, y) in order {
			let d = &tiles[&(z, *x, *y)];
			if d.is_empty() { continue; }
			let e = if let Some(e) = seen.get(d.as_slice()) { *e } else {
				if rng.chance(1, 4) { let k = rng.below(9) as usize; f.extend(rng.bytes(k)); }
				let e = (f.len() as u64 - off, d.len() as u32); f.extend(d); seen.insert(d.as_slice(), e); e };
			index[((y & 255) - y0) as usize * w + ((x & 255) - x0) as usize] = e;
		}
		let tlen = f.len() as u64 - off;
		let mut ti = vec![]; for (o, l) in &index { ti.extend(o.to_be_bytes()); ti.extend(l.to_be_bytes()); }
		let tic = brotli_c(&ti); f.extend(&tic);
		let mut d = vec![z]; d.extend(bx.to_be_bytes()); d.extend(by.to_be_bytes()); d.extend([x0 as u8, y0 as u8, x1 as u8, y1 as u8]);
		d.extend(off.to_be_bytes()); d.extend(tlen.to_be_bytes()); d.extend((tic.len() as u32).to_be_bytes());
		defs.push(d);
	}
	let bi = brotli_c(&defs.concat());
	let boff = f.len() as u64; f.extend(&bi);
	f[34..42].copy_from_slice(&moff.to_be_bytes()); f[42..50].copy_from_slice(&mlen.to_be_bytes());
	f[50..58].copy_from_slice(&boff.to_be_bytes()); f[58..66].copy_from_slice(&(bi.len() as u64).to_be_bytes());
	f
}

// ---------------------------------------------------------------- PMTiles v3
#[derive(Debug, Clone, Copy, PartialEq)]
pub struct Entry { pub id: u64, pub off: u64, pub len: u64, pub run: u64 }
pub fn dec_dir(b: &[u8]) -> Result<Vec<Entry>> {
	let mut p = 0; let n = get_varint(b, &mut p)? as usize;
	ensure!(n <= b.len(), "entry count");
	let mut es = vec![Entry { id: 0, off: 0, len: 0, run: 0 }; n];
	let mut last = 0u64; for e in es.iter_mut() { last = last.checked_add(get_varint(b, &mut p)?).ok_or(anyhow!("id"))?; e.id = last; }
	for e in es.iter_mut() { e.run = get_varint(b, &mut p)?; }
	for e in es.iter_mut() { e.len = get_varint(b, &mut p)?; }
	for i in 0..n { let v = get_varint(b, &mut p)?; es[i].off = if v == 0 && i > 0 { es[i - 1].off + es[i - 1].len } else { v.checked_sub(1).ok_or(anyhow!("offset"))? }; }
	Ok(es)
}
pub fn enc_dir(es: &[Entry], rng: &mut Rng) -> Vec<u8> {
	let mut o = vec![]; put_varint(&mut o, es.len() as u64);
	let mut last = 0; for e in es { put_varint(&mut o, e.id - last); last = e.id; }
	for e in es { put_varint(&mut o, e.run); }
	for e in es { put_varint(&mut o, e.len); }
	for (i, e) in es.iter().enumerate() { if i > 0 && e.off == es[i - 1].off + es[i - 1].len && rng.chance(3, 4) { put_varint(&mut o, 0); } else { put_varint(&mut o, e.off + 1); } }
	o
}
pub struct PmDecoded { pub tile_type: u8, pub tile_compression: u8, pub tiles: TileMap, pub meta: Vec<u8>, pub clustered: bool, pub in_order: bool }
pub fn dec_pmtiles(f: &[u8]) -> Result<PmDecoded> {
	ensure!(f.len() >= 127 && &f[0..7] == b"PMTiles" && f[7] == 3, "magic");
	let r = |i: usize| le(&f[8 + 8 * i..16 + 8 * i]);
	let (root_off, root_len, meta_off, meta_len, leaf_off, _leaf_len, data_off, _data_len) = (r(0), r(1), r(2), r(3), r(4), r(5), r(6), r(7));
	let (clustered, ic, tc, tt) = (f[96] == 1, f[97], f[98], f[99]);
	// layout: header and root directory inside the first 16 KiB; the sections do not overlap
	ensure!(root_off >= 127 && root_off + root_len <= 16384, "root directory {root_off}+{root_len} is not inside the first 16384 bytes");
	{ let mut secs = vec![(0u64, 127u64, "header"), (root_off, root_len, "root directory"), (meta_off, meta_len, "metadata"), (leaf_off, _leaf_len, "leaf directories"), (data_off, _data_len, "tile data")];
		secs.retain(|s| s.1 > 0); secs.sort();
		for w in secs.windows(2) { ensure!(w[0].0 + w[0].1 <= w[1].0, "{} ({}+{}) overlaps {} (at {})", w[0].2, w[0].0, w[0].1, w[1].2, w[1].0); } }
	let dc = |d: &[u8]| -> Result<Vec<u8>> { Ok(match ic { 1 => d.to_vec(), 2 => gunzip(d)?, 3 => unbrotli(d)?, _ => bail!("internal compression {ic}") }) };
	let meta = dc(sl(f, meta_off, meta_len)?)?;
	let mut tiles = TileMap::new();
	let mut offs: Vec<u64> = vec![];
	fn walk(f: &[u8], dir: &[Entry], leaf_off: u64, data_off: u64, dc: &dyn Fn(&[u8]) -> Result<Vec<u8>>, tiles: &mut TileMap, offs: &mut Vec<u64>, depth: u32) -> Result<()> {
		ensure!(depth < 5, "directory depth");
		for e in dir {
			if e.len == 0 { continue; }
			if e.run == 0 { let sub = dec_dir(&dc(sl(f, leaf_off + e.off, e.len)?)?)?; walk(f, &sub, leaf_off, data_off, dc, tiles, offs, depth + 1)?; }
			else { offs.push(e.off); for i in 0..e.run { tiles.insert(id_tile(e.id + i), sl(f, data_off + e.off, e.len)?.to_vec()); } }
		}
		Ok(())
	}
	let root = dec_dir(&dc(sl(f, root_off, root_len)?)?)?;
	walk(f, &root, leaf_off, data_off, &dc, &mut tiles, &mut offs, 0)?;
	// "clustered": offsets never decrease when the entries are read in tile-id order (re-used offsets allowed)
	let mut hi = 0u64; let mut in_order = true; for o in &offs { if *o < hi && !offs.iter().take_while(|x| *x != o).any(|x| x == o) { in_order = false; } hi = hi.max(*o); }
	Ok(PmDecoded { tile_type: tt, tile_compression: tc, tiles, meta, clustered, in_order })
}

/// layout freedoms: run lengths for consecutive ids with one payload (also across a zoom boundary),
/// identical payloads stored once (shared offsets), leaf directories of any size and one or two
/// levels, internal compression none or gzip, payload order
pub struct PmLayout { pub runs: u64, pub max_run: u64, pub cross_zoom_runs: u64, pub levels: u32, pub dirs: Vec<Vec<Entry>> }
pub fn enc_pmtiles(tiles: &TileMap, tile_type: u8, tile_compression: u8, meta: &[u8], rng: &mut Rng) -> (Vec<u8>, PmLayout) {
	let mut ids: Vec<(u64, &Vec<u8>)> = tiles.iter().filter(|(_, d)| !d.is_empty()).map(|((z, x, y), d)| (tile_id(*z, *x, *y), d)).collect();
	ids.sort_by_key(|e| e.0);
	let mut data: Vec<u8> = vec![];
	let mut seen: HashMap<&[u8], u64> = HashMap::new();
	let mut es: Vec<Entry> = vec![];
	let use_runs = rng.chance(4, 5);
	for (id, d) in &ids {
		if use_runs { if let Some(l) = es.last_mut() { if l.id + l.run == *id && l.len == d.len() as u64 && &data[l.off as usize..(l.off + l.len) as usize] == d.as_slice() { l.run += 1; continue; } } }
		let off = if let Some(o) = seen.get(d.as_slice()) { *o } else { let o = data.len() as u64; data.extend(*d); seen.insert(d.as_slice(), o); o };
		es.push(Entry { id: *id, off, len: d.len() as u64, run: 1 });
	}
	let mut lay = PmLayout { runs: es.iter().filter(|e| e.run > 1).count() as u64, max_run: es.iter().map(|e| e.run).max().unwrap_or(0), cross_zoom_runs: es.iter().filter(|e| e.run > 1 && id_tile(e.id).0 != id_tile(e.id + e.run - 1).0).count() as u64, levels: 1, dirs: vec![] };
	let ic: u8 = if rng.chance(1, 2) { 2 } else { 1 };
	let cz = |d: Vec<u8>| -> Vec<u8> { if ic == 2 { gzip(&d) } else { d } };
	let mut leaves: Vec<u8> = vec![];
	let levels = if es.len() < 2 { 1 } else { 1 + rng.below(3) as u32 };
	lay.levels = levels;
	// split `dir` into leaf directories of `size` entries, returning the pointer directory
	let mut split = |dir: &[Entry], size: usize, leaves: &mut Vec<u8>, rng: &mut Rng, dirs: &mut Vec<Vec<Entry>>| -> Vec<Entry> {
		let mut ptr = vec![];
		for ch in dir.chunks(size.max(1)) { let b = cz(enc_dir(ch, rng)); ptr.push(Entry { id: ch[0].id, off: leaves.len() as u64, len: b.len() as u64, run: 0 }); leaves.extend(&b); dirs.push(ch.to_vec()); }
		ptr
	};
	let mut root = es.clone();
	if levels >= 2 { let size = 1 + rng.below((es.len() as u64).min(7)) as usize; root = split(&root, size, &mut leaves, rng, &mut lay.dirs); }
	if levels >= 3 && root.len() >= 2 { let size = 1 + rng.below((root.len() as u64).min(4)) as usize; root = split(&root, size, &mut leaves, rng, &mut lay.dirs); }
	lay.dirs.push(root.clone());
	let rootb = cz(enc_dir(&root, rng));
	let metab = cz(meta.to_vec());
	let mut f = vec![0u8; 127];
	let root_off = f.len() as u64; f.extend(&rootb);
	let meta_off = f.len() as u64; f.extend(&metab);
	let leaf_off = f.len() as u64; f.extend(&leaves);
	let data_off = f.len() as u64; f.extend(&data);
	f[0..7].copy_from_slice(b"PMTiles"); f[7] = 3;
	let vals = [root_off, rootb.len() as u64, meta_off, metab.len() as u64, leaf_off, leaves.len() as u64, data_off, data.len() as u64, ids.len() as u64, es.len() as u64, seen.len() as u64];
	for (i, v) in vals.iter().enumerate() { f[8 + 8 * i..16 + 8 * i].copy_from_slice(&v.to_le_bytes()); }
	f[96] = 1; f[97] = ic; f[98] = tile_compression; f[99] = tile_type;
	let zs: Vec<u8> = tiles.keys().map(|k| k.0).collect();
	f[100] = *zs.iter().min().unwrap_or(&0); f[101] = *zs.iter().max().unwrap_or(&0);
	for (i, v) in [-1800000000i32, -850511300, 1800000000, 850511300].iter().enumerate() { f[102 + 4 * i..106 + 4 * i].copy_from_slice(&v.to_le_bytes()); }
	(f, lay)
}

// ---------------------------------------------------------------- tar / directory
fn parse_name(name: &str) -> Option<((u8, u32, u32), String)> {
	let n = name.strip_prefix("./").unwrap_or(name);
	let p: Vec<&str> = n.split('/').collect();
	if p.len() != 3 { return None; }
	let (stem, ext) = p[2].split_once('.')?;
	Some(((p[0].parse().ok()?, p[1].parse().ok()?, stem.parse().ok()?), format!(".{ext}")))
}
pub fn dec_tar(f: &[u8]) -> Result<(String, TileMap, Vec<u8>)> {
	let mut a = tar::Archive::new(f);
	let (mut ext, mut tiles, mut meta) = (String::new(), TileMap::new(), vec![]);
	for e in a.entries()? { let mut e = e?; if e.header().entry_type() != tar::EntryType::Regular { continue; }
		let name = e.path()?.to_string_lossy().to_string(); let mut d = vec![]; e.read_to_end(&mut d)?;
		if let Some((c, x)) = parse_name(&name) { ext = x; tiles.insert(c, d); } else if name.trim_start_matches("./").starts_with("tiles.json") { meta = d; } }
	Ok((ext, tiles, meta))
}
pub fn dec_directory(root: &std::path::Path) -> Result<(String, TileMap)> {
	let (mut ext, mut tiles) = (String::new(), TileMap::new());
	for z in std::fs::read_dir(root)? { let z = z?; if !z.file_type()?.is_dir() { continue; }
		for x in std::fs::read_dir(z.path())? { let x = x?; if !x.file_type()?.is_dir() { continue; }
			for y in std::fs::read_dir(x.path())? { let y = y?;
				let name = format!("{}/{}/{}", z.file_name().to_string_lossy(), x.file_name().to_string_lossy(), y.file_name().to_string_lossy());
				if let Some((c, e)) = parse_name(&name) { ext = e; tiles.insert(c, std::fs::read(y.path())?); } } } }
	Ok((ext, tiles))
}
/// members with or without the './' prefix, directory members in between, any member order
pub fn enc_tar(tiles: &TileMap, ext: &str, meta: &[u8], rng: &mut Rng) -> Vec<u8> {
	let mut b = tar::Builder::new(Vec::new());
	let mut add = |b: &mut tar::Builder<Vec<u8>>, name: &str, d: &[u8]| { let mut h = tar::Header::new_gnu(); h.set_size(d.len() as u64); h.set_mode(0o644); h.set_cksum(); b.append_data(&mut h, name, d).unwrap(); };
	let dot = rng.chance(1, 2);
	if !meta.is_empty() && rng.chance(1, 2) { add(&mut b, &format!("{}tiles.json", if dot { "./" } else { "" }), meta); }
	let mut keys: Vec<_> = tiles.keys().cloned().collect(); keys.sort(); if rng.chance(1, 2) { keys.reverse(); }
	let mut dirs_done = std::collections::HashSet::new();
	for (z, x, y) in keys {
		if rng.chance(1, 2) && dirs_done.insert((z, x)) { let mut h = tar::Header::new_gnu(); h.set_entry_type(tar::EntryType::Directory); h.set_size(0); h.set_mode(0o755); h.set_cksum(); b.append_data(&mut h, format!("{}{z}/{x}/", if dot { "./" } else { "" }), &[][..]).unwrap(); }
		add(&mut b, &format!("{}{z}/{x}/{y}{ext}", if dot { "./" } else { "" }), &tiles[&(z, x, y)]);
	}
	if !meta.is_empty() && rng.chance(1, 2) { add(&mut b, "tiles.json", meta); }
	b.into_inner().unwrap()
}
pub fn enc_directory(root: &std::path::Path, tiles: &TileMap, ext: &str) -> Result<()> {
	for ((z, x, y), d) in tiles { let p = root.join(z.to_string()).join(x.to_string()); std::fs::create_dir_all(&p)?; std::fs::write(p.join(format!("{y}{ext}")), d)?; }
	Ok(())
}

// ---------------------------------------------------------------- MBTiles (plain SQL)
use r2d2_sqlite::rusqlite::{params, Connection};
pub fn dec_mbtiles(path: &std::path::Path) -> Result<(String, TileMap)> {
	let c = Connection::open(path)?;
	let format: String = c.query_row("SELECT value FROM metadata WHERE name = 'format'", [], |r| r.get(0)).unwrap_or_default();
	let mut st = c.prepare("SELECT zoom_level, tile_column, tile_row, tile_data FROM tiles")?;
	let mut tiles = TileMap::new();
	for r in st.query_map([], |r| Ok((r.get::<_, i64>(0)?, r.get::<_, i64>(1)?, r.get::<_, i64>(2)?, r.get::<_, Vec<u8>>(3)?)))? { let (z, x, row, d) = r?; tiles.insert((z as u8, x as u32, ((1i64 << z) - 1 - row) as u32), d); }
	Ok((format, tiles))
}
/// TMS rows, zoom gaps, rows in any insertion order; `tiles` may be a view over map/images tables
pub fn enc_mbtiles(path: &std::path::Path, tiles: &TileMap, format: &str, rng: &mut Rng) -> Result<()> {
	let _ = std::fs::remove_file(path);
	let c = Connection::open(path)?;
	let view = rng.chance(1, 3);
	if view {
		c.execute_batch("CREATE TABLE metadata (name text, value text); CREATE TABLE map (zoom_level INTEGER, tile_column INTEGER, tile_row INTEGER, tile_id TEXT); CREATE TABLE images (tile_data blob, tile_id text); CREATE VIEW tiles AS SELECT map.zoom_level AS zoom_level, map.tile_column AS tile_column, map.tile_row AS tile_row, images.tile_data AS tile_data FROM map JOIN images ON images.tile_id = map.tile_id;")?;
	} else {
		c.execute_batch("CREATE TABLE metadata (name text, value text); CREATE TABLE tiles (zoom_level integer, tile_column integer, tile_row integer, tile_data blob); CREATE UNIQUE INDEX tile_index on tiles (zoom_level, tile_column, tile_row);")?;
	}
	c.execute("INSERT INTO metadata VALUES ('format', ?1)", params![format])?;
	c.execute("INSERT INTO metadata VALUES ('name', 'harness')", [])?;
	let mut keys: Vec<_> = tiles.keys().cloned().collect(); keys.sort(); if rng.chance(1, 2) { keys.reverse(); }
	for (i, (z, x, y)) in keys.iter().enumerate() {
		let row = (1i64 << z) - 1 - *y as i64;
		if view { let id = format!("t{i}"); c.execute("INSERT INTO map VALUES (?1, ?2, ?3, ?4)", params![*z as i64, *x as i64, row, id])?; c.execute("INSERT INTO images VALUES (?1, ?2)", params![tiles[&(*z, *x, *y)], id])?; }
		else { c.execute("INSERT INTO tiles VALUES (?1, ?2, ?3, ?4)", params![*z as i64, *x as i64, row, tiles[&(*z, *x, *y)]])?; }
	}
	Ok(())
}
