//! C13: concurrent byte-range reads on one DataReaderFile (and lookups on file-backed readers).
//! `sysprog` line: the syscalls one read_range issues (observed with strace) vs the model's program.
//! Spec level: many OS threads / tokio tasks read random ranges of a file whose every 8-byte word
//! encodes its own offset; any misplaced read is self-evident.
use crate::util::*;
use crate::Ctx;
use anyhow::Result;
use std::collections::BTreeMap;
use std::io::Write;
use std::sync::atomic::{AtomicU64, Ordering};
use std::sync::Arc;
use versatiles_core::io::{DataReaderFile, DataReaderTrait};
use versatiles_core::types::ByteRange;

const PROBE_OFF: u64 = 4113;
const PROBE_LEN: u64 = 23;

fn make_file(path: &std::path::Path, words: u64) -> Result<()> {
	let mut f = std::io::BufWriter::new(std::fs::File::create(path)?);
	for i in 0..words { f.write_all(&(i * 8).to_le_bytes())?; }
	f.flush()?;
	Ok(())
}

/// expected content of [off, off+len)
fn expected(off: u64, len: u64) -> Vec<u8> {
	(off..off + len).map(|p| ((p / 8 * 8) >> (8 * (p % 8))) as u8).collect()
}

pub fn probe(path: &str) -> Result<()> {
	let rt = tokio::runtime::Builder::new_current_thread().build()?;
	let r = DataReaderFile::open(std::path::Path::new(path))?;
	for _ in 0..3 {
		let b = rt.block_on(r.read_range(&ByteRange::new(PROBE_OFF, PROBE_LEN)))?;
		assert_eq!(b.as_slice(), expected(PROBE_OFF, PROBE_LEN).as_slice());
	}
	Ok(())
}

fn strace_shape(file: &std::path::Path, dir: &std::path::Path) -> Result<String> {
	let log = dir.join("strace.log");
	let exe = std::env::current_exe()?;
	let st = std::process::Command::new("strace")
		.args(["-f", "-e", "trace=lseek,read,pread64,preadv,preadv2,readv", "-o"]).arg(&log)
		.arg(&exe).arg("c13probe").arg("--replay").arg(file)
		.status()?;
	anyhow::ensure!(st.success(), "strace probe failed");
	let txt = std::fs::read_to_string(&log)?;
	// collect the syscalls that mention the probe offset / length, in order, for one call
	let mut calls: Vec<String> = Vec::new();
	for l in txt.lines() {
		if l.contains("pread64(") && l.contains(&format!(", {PROBE_LEN}, {PROBE_OFF})")) { calls.push(format!("pread:{PROBE_OFF}:{PROBE_LEN}")); }
		else if l.contains("lseek(") && l.contains(&format!(", {PROBE_OFF}, SEEK_SET")) { calls.push(format!("seek:{PROBE_OFF}")); }
		else if l.contains("read(") && !l.contains("pread") && l.contains(&format!(", {PROBE_LEN})")) && l.trim_end().ends_with(&format!("= {PROBE_LEN}")) { calls.push(format!("read:{PROBE_LEN}")); }
	}
	// three identical calls were made
	if calls.is_empty() || calls.len() % 3 != 0 {
		// not the three identical positional reads: show every read-like call on the probe file's descriptor range instead
		let other: Vec<String> = txt.lines().filter(|l| (l.contains("pread64(") || l.contains("lseek(") || l.contains("preadv")) && !l.contains("ENOENT")).map(|l| { let l = l.split_whitespace().skip(1).collect::<Vec<_>>().join(""); l.split('=').next().unwrap_or("").chars().filter(|c| !c.is_whitespace()).take(60).collect::<String>() }).take(6).collect();
		return Ok(format!("unexpected:{}", other.join(";")));
	}
	let per = calls.len() / 3;
	Ok(calls[..per].join(","))
}

pub fn run(ctx: &Ctx) -> Result<()> {
	let mut out = Out::create(&ctx.out, "cases.txt")?;
	let mut stats: BTreeMap<String, u64> = BTreeMap::new();
	let mut viol: Vec<(String, String, String)> = Vec::new();
	let words: u64 = 1 << 16; // 512 KiB
	let path = std::fs::canonicalize(&ctx.out)?.join("offsets.bin");
	make_file(&path, words)?;
	let size = words * 8;

	match strace_shape(&path, &ctx.out) {
		Ok(shape) => out.line(&format!("sysprog {PROBE_OFF} {PROBE_LEN} => {shape}")),
		Err(e) => { stats.insert("strace_unavailable".into(), 1); eprintln!("strace: {e}"); }
	}

	// stress: OS threads
	let reader: Arc<DataReaderFile> = Arc::from(DataReaderFile::open(&path)?);
	let total = if ctx.thorough { 4_000_000u64 } else { 200_000 };
	let bad = Arc::new(AtomicU64::new(0));
	let first_bad = Arc::new(std::sync::Mutex::new(None::<(u64, u64)>));
	for &nthreads in &[2usize, 8, 16] {
		let per = total / 3 / nthreads as u64;
		let mut hs = Vec::new();
		for t in 0..nthreads {
			let reader = reader.clone(); let bad = bad.clone(); let first_bad = first_bad.clone();
			let seed = ctx.seed * 1000 + t as u64 + nthreads as u64 * 77;
			hs.push(std::thread::spawn(move || {
				let rt = tokio::runtime::Builder::new_current_thread().build().unwrap();
				let mut rng = Rng::new(seed);
				for _ in 0..per {
					let len = *rng.pick(&[1u64, 7, 8, 9, 64, 4096]);
					let off = rng.below(size - len);
					match std::panic::catch_unwind(std::panic::AssertUnwindSafe(|| rt.block_on(reader.read_range(&ByteRange::new(off, len))))).unwrap_or_else(|_| Err(anyhow::anyhow!("panic"))) {
						Ok(b) if b.as_slice() == expected(off, len).as_slice() => {}
						_ => { bad.fetch_add(1, Ordering::SeqCst); let mut g = first_bad.lock().unwrap(); if g.is_none() { *g = Some((off, len)); } }
					}
				}
			}));
		}
		for h in hs { if h.join().is_err() { bad.fetch_add(1, Ordering::SeqCst); } }
		*stats.entry("thread_reads".into()).or_insert(0) += per * nthreads as u64;
	}
	// stress: tasks on a multi-thread runtime
	{
		let rt = tokio::runtime::Builder::new_multi_thread().worker_threads(8).enable_all().build()?;
		let ntasks = 16u64; let per = total / 3 / ntasks;
		rt.block_on(async {
			let mut hs = Vec::new();
			for t in 0..ntasks {
				let reader = reader.clone(); let bad = bad.clone(); let first_bad = first_bad.clone();
				let seed = ctx.seed * 5000 + t;
				hs.push(tokio::spawn(async move {
					let mut rng = Rng::new(seed);
					for _ in 0..per {
						let len = *rng.pick(&[1u64, 8, 9, 512]);
						let off = rng.below(size - len);
						match reader.read_range(&ByteRange::new(off, len)).await {
							Ok(b) if b.as_slice() == expected(off, len).as_slice() => {}
							_ => { bad.fetch_add(1, Ordering::SeqCst); let mut g = first_bad.lock().unwrap(); if g.is_none() { *g = Some((off, len)); } }
						}
					}
				}));
			}
			for h in hs { if h.await.is_err() { bad.fetch_add(1, Ordering::SeqCst); let mut g = first_bad.lock().unwrap(); if g.is_none() { *g = Some((u64::MAX, 0)); } } }
		});
		*stats.entry("task_reads".into()).or_insert(0) += per * ntasks;
	}
	// large ranges (1..3 MiB, what a bounding-box stream reads per chunk) from several OS threads at once
	{
		let big = std::fs::canonicalize(&ctx.out)?.join("offsets_big.bin");
		let words_big: u64 = 3 << 20; // 24 MiB
		make_file(&big, words_big)?;
		let size_big = words_big * 8;
		let reader: Arc<DataReaderFile> = Arc::from(DataReaderFile::open(&big)?);
		let rounds = if ctx.thorough { 60 } else { 12 };
		let mut hs = Vec::new();
		for t in 0..8u64 {
			let reader = reader.clone(); let bad = bad.clone(); let first_bad = first_bad.clone();
			let seed = ctx.seed * 77 + t;
			hs.push(std::thread::spawn(move || {
				let rt = tokio::runtime::Builder::new_current_thread().build().unwrap();
				let mut rng = Rng::new(seed);
				for _ in 0..rounds {
					// half of the reads start at one of a few shared offsets: several callers then read the same start with other
					// lengths at the same time (a stream's chunk and a lookup of the chunk's first tile do that)
					let shared = rng.chance(1, 2);
					let len = if shared { *rng.pick(&[4096u64, 70_000, 1 << 20, 3 << 20]) } else { *rng.pick(&[1u64 << 20, (1 << 20) + 13, 3 << 20, 2_500_000]) };
					let off = if shared { *rng.pick(&[0u64, 4096, 1 << 20, 5_000_000]) } else { rng.below(size_big - len) };
					let ok = match rt.block_on(reader.read_range(&ByteRange::new(off, len))) {
						Ok(b) => b.len() == len && { let s = b.as_slice(); let e0 = expected(off, 64); let tail = expected(off + len - 64, 64); let mid = len / 2; let em = expected(off + mid, 64);
							s[..64] == e0[..] && s[(len - 64) as usize..] == tail[..] && s[mid as usize..(mid + 64) as usize] == em[..] },
						Err(_) => false };
					if !ok { bad.fetch_add(1, Ordering::SeqCst); let mut g = first_bad.lock().unwrap(); if g.is_none() { *g = Some((off, len)); } }
				}
			}));
		}
		for h in hs { if h.join().is_err() { bad.fetch_add(1, Ordering::SeqCst); } }
		*stats.entry("thread_reads".into()).or_insert(0) += 8 * rounds;
		*stats.entry("large_reads".into()).or_insert(0) += 8 * rounds;
		let _ = std::fs::remove_file(&big);
	}
	// reader level: concurrent single-tile lookups on one freshly opened (cold) container reader
	{
		use versatiles_container::{get_reader, write_to_filename};
		use versatiles_core::types::*;
		let rt = tokio::runtime::Builder::new_multi_thread().worker_threads(8).enable_all().build()?;
		let mut rng = Rng::new(ctx.seed ^ 0x13);
		// tiles in many blocks / leaf directories, every payload names its coordinate
		let mut tiles: Vec<((u8, u32, u32), Vec<u8>)> = vec![];
		for b in 0..24u32 { for k in 0..6u32 { let (x, y) = ((b % 6) * 256 + rng.below(256) as u32, (b / 6) * 256 + rng.below(256) as u32); let _ = k;
			let mut d = format!("tile 12/{x}/{y} ").into_bytes(); let n = 20 + rng.below(1500) as usize; d.extend(rng.bytes(n)); tiles.push(((12, x, y), d)); } }
		let expected: std::collections::HashMap<(u8, u32, u32), Vec<u8>> = tiles.iter().cloned().collect();
		let keys: Arc<Vec<(u8, u32, u32)>> = Arc::new(expected.keys().cloned().collect());
		let expected = Arc::new(expected);
		let rounds = if ctx.thorough { 400 } else { 40 };
		for container in ["versatiles", "pmtiles", "tar", "mbtiles"] {
			let p = std::fs::canonicalize(&ctx.out)?.join(format!("conc.{container}"));
			let mut src = crate::memsrc::MemSource::new("mem", tiles.clone(), TileFormat::PNG, TileCompression::Uncompressed);
			rt.block_on(write_to_filename(&mut src, p.to_str().unwrap()))?;
			let mut wrong = 0u64; let mut first: Option<String> = None; let mut lookups = 0u64;
			for round in 0..rounds {
				let reader: Arc<Box<dyn TilesReaderTrait>> = Arc::new(rt.block_on(get_reader(p.to_str().unwrap()))?);   // cold caches
				let res: Vec<Option<String>> = rt.block_on(async {
					let mut hs = Vec::new();
					for t in 0..16u64 {
						let (reader, keys, expected) = (reader.clone(), keys.clone(), expected.clone());
						let seed = ctx.seed * 31 + round as u64 * 17 + t;
						hs.push(tokio::spawn(async move {
							let mut rng = Rng::new(seed); let mut bad = None;
							for _ in 0..12 { let c = keys[rng.below(keys.len() as u64) as usize];
								let r = reader.get_tile_data(&TileCoord3 { x: c.1, y: c.2, z: c.0 }).await;
								let ok = matches!(&r, Ok(Some(b)) if b.as_slice() == expected[&c].as_slice());
								if !ok && bad.is_none() { bad = Some(format!("{}/{}/{} -> {}", c.0, c.1, c.2, match &r { Ok(Some(b)) => format!("{} bytes of other content", b.len()), Ok(None) => "None".into(), Err(e) => format!("error {e}") })); } }
							bad
						}));
					}
					let mut v = vec![]; for h in hs { v.push(h.await.unwrap_or(Some("task panicked".into()))); } v
				});
				lookups += 16 * 12;
				for r in res.into_iter().flatten() { wrong += 1; if first.is_none() { first = Some(r); } }
			}
			*stats.entry(format!("reader_lookups_{container}")).or_insert(0) += lookups;
			if wrong > 0 { viol.push(("concurrent-lookup".into(), format!("{container}: 16 tasks x 12 get_tile_data calls on one freshly opened reader (8 worker threads)"), format!("{wrong} tasks got a wrong answer, first: {}", first.unwrap_or_default()))); }
			let _ = std::fs::remove_file(&p);
		}
	}
	// a PMTiles container with leaf directories (full pyramid 0..=7, 21845 tiles): concurrent lookups that fall into different leaves
	{
		use versatiles_container::{get_reader, write_to_filename};
		use versatiles_core::types::*;
		let rt = tokio::runtime::Builder::new_multi_thread().worker_threads(8).enable_all().build()?;
		let mut tiles: Vec<((u8, u32, u32), Vec<u8>)> = Vec::new();
		for z in 0..=7u8 { let n = 1u32 << z; for x in 0..n { for y in 0..n { tiles.push(((z, x, y), format!("t{z}/{x}/{y}").into_bytes())); } } }
		let p = std::fs::canonicalize(&ctx.out)?.join("leaves.pmtiles");
		let mut src = crate::memsrc::MemSource::new("mem", tiles.clone(), TileFormat::PNG, TileCompression::Uncompressed);
		rt.block_on(write_to_filename(&mut src, p.to_str().unwrap()))?;
		let leaf_len = std::fs::read(&p).ok().and_then(|b| b.get(48..56).map(|s| u64::from_le_bytes(s.try_into().unwrap()))).unwrap_or(0);
		stats.insert("pmtiles_leaf_bytes".into(), leaf_len);
		let tiles = Arc::new(tiles);
		let per = if ctx.thorough { 40_000u64 } else { 6_000 };
		let mut wrong = 0u64; let mut first: Option<String> = None;
		for round in 0..3u64 {
			let reader: Arc<Box<dyn TilesReaderTrait>> = Arc::new(rt.block_on(get_reader(p.to_str().unwrap()))?);
			let res: Vec<(u64, Option<String>)> = rt.block_on(async {
				let mut hs = Vec::new();
				for t in 0..8u64 {
					let (reader, tiles) = (reader.clone(), tiles.clone()); let seed = ctx.seed * 77 + round * 13 + t;
					hs.push(tokio::spawn(async move {
						let mut rng = Rng::new(seed); let mut bad = 0u64; let mut first = None;
						for _ in 0..per { let (c, d) = &tiles[rng.below(tiles.len() as u64) as usize];
							let r = reader.get_tile_data(&TileCoord3 { x: c.1, y: c.2, z: c.0 }).await;
							if !matches!(&r, Ok(Some(b)) if b.as_slice() == d.as_slice()) { bad += 1; if first.is_none() { first = Some(format!("{}/{}/{} -> {}", c.0, c.1, c.2, match &r { Ok(Some(b)) => format!("{:?}", String::from_utf8_lossy(b.as_slice())), Ok(None) => "None".into(), Err(e) => format!("error {e}") })); } } }
						(bad, first)
					}));
				}
				// ... while two more tasks stream bounding boxes from the same reader: every streamed tile must carry the content of its
				// own coordinate (the payloads name their coordinates)
				for t in 0..2u32 {
					let reader = reader.clone();
					hs.push(tokio::spawn(async move {
						let mut bad = 0u64; let mut first = None;
						for k in 0..6u32 { let (z, y0) = (7u8, (t * 6 + k) * 10); let bb = TileBBox::new(z, 0, y0, 127, y0 + 7).unwrap();
							let items: Vec<(TileCoord3, Blob)> = reader.get_bbox_tile_stream(bb).await.collect().await;
							if items.len() != 128 * 8 { bad += 1; if first.is_none() { first = Some(format!("stream over rows {y0}..{} of level 7 delivered {} tiles instead of 1024", y0 + 7, items.len())); } }
							for (c, b) in &items { if b.as_slice() != format!("t{}/{}/{}", c.z, c.x, c.y).as_bytes() { bad += 1; if first.is_none() { first = Some(format!("stream: coordinate {}/{}/{} delivered with {:?}", c.z, c.x, c.y, String::from_utf8_lossy(b.as_slice()))); } } } }
						(bad, first)
					}));
				}
				let mut v = vec![]; for h in hs { v.push(h.await.unwrap_or((1, Some("task panicked".into())))); } v
			});
			for (b, f) in res { wrong += b; if first.is_none() { first = f; } }
		}
		*stats.entry("reader_lookups_pmtiles_leaves".into()).or_insert(0) += 3 * 8 * per;
		*stats.entry("reader_streams_pmtiles_leaves".into()).or_insert(0) += 3 * 2 * 6;
		if wrong > 0 { viol.push(("concurrent-lookup".into(), "pmtiles with leaf directories (21845 tiles): 8 tasks looking up random tiles and 2 tasks streaming boxes on one reader".into(), format!("{wrong} lookups got a wrong answer, first: {}", first.unwrap_or_default()))); }
		let _ = std::fs::remove_file(&p);
	}
	let nbad = bad.load(Ordering::SeqCst);
	stats.insert("wrong_reads".into(), nbad);
	if nbad > 0 {
		let fb = first_bad.lock().unwrap().unwrap();
		viol.push(("concurrent-read".into(), format!("read_range offset={} length={} while other callers read concurrently", fb.0, fb.1),
			format!("{nbad} concurrent read_range calls returned bytes of another offset")));
	}
	let _ = std::fs::remove_file(&path);
	let lines = out.lines;
	out.finish();
	let mut v = Out::create(&ctx.out, "spec_violations.jsonl")?;
	for (k, i, d) in &viol { v.line(&format!("{{\"kind\":{},\"input\":{},\"replay\":{},\"detail\":{}}}", jstr(k), jstr(i), jstr(i), jstr(d))); }
	v.finish();
	let mut s = Out::create(&ctx.out, "stats.json")?;
	let reads = stats.get("thread_reads").unwrap_or(&0) + stats.get("task_reads").unwrap_or(&0);
	s.line(&format!("{{\"lines\":{lines},\"spec_cases\":{reads},\"spec_violations\":{},\"groups\":{{{}}}}}", viol.len(),
		stats.iter().map(|(k, v)| format!("{}:{}", jstr(k), v)).collect::<Vec<_>>().join(",")));
	s.finish();
	Ok(())
}
