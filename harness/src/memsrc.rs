//! In-memory tile source implementing TilesReaderTrait (default lookup-loop stream), and a registry
//! so that pipelines built from VPL text (`from_container filename=<name>`) can reach harness sources.
use anyhow::Result;
use async_trait::async_trait;
use std::collections::HashMap;
use std::sync::Mutex;
use versatiles_core::tilejson::TileJSON;
use versatiles_core::types::*;

#[derive(Debug)]
pub struct MemSource {
	pub name: String,
	pub tiles: HashMap<(u8, u32, u32), Blob>,
	pub parameters: TilesReaderParameters,
	pub tilejson: TileJSON,
	/// every lookup suspends this many times (Poll::Pending + wake) before it answers, as real I/O does
	pub yields: usize,
}

/// suspends the current task exactly once, on any runtime
pub struct YieldOnce(pub bool);
impl std::future::Future for YieldOnce {
	type Output = ();
	fn poll(mut self: std::pin::Pin<&mut Self>, cx: &mut std::task::Context<'_>) -> std::task::Poll<()> {
		if self.0 { std::task::Poll::Ready(()) } else { self.0 = true; cx.waker().wake_by_ref(); std::task::Poll::Pending }
	}
}

impl MemSource {
	/// coverage = exact bounding box per level (include_coord fold)
	pub fn new(name: &str, tiles: Vec<((u8, u32, u32), Vec<u8>)>, format: TileFormat, compression: TileCompression) -> MemSource {
		let mut pyramid = TileBBoxPyramid::new_empty();
		let mut map = HashMap::new();
		for ((z, x, y), data) in tiles {
			if !map.contains_key(&(z, x, y)) {
				pyramid.include_coord(&TileCoord3 { x, y, z });
				map.insert((z, x, y), Blob::from(data));
			}
		}
		MemSource {
			name: name.to_string(),
			tiles: map,
			parameters: TilesReaderParameters::new(format, compression, pyramid),
			tilejson: TileJSON::default(),
			yields: 0,
		}
	}
	pub fn with_pyramid(mut self, p: TileBBoxPyramid) -> Self { self.parameters.bbox_pyramid = p; self }
	pub fn with_yields(mut self, n: usize) -> Self { self.yields = n; self }
	pub fn with_tilejson(mut self, t: TileJSON) -> Self { self.tilejson = t; self }
}

#[async_trait]
impl TilesReaderTrait for MemSource {
	fn get_source_name(&self) -> &str { &self.name }
	fn get_container_name(&self) -> &str { "mem" }
	fn get_parameters(&self) -> &TilesReaderParameters { &self.parameters }
	fn override_compression(&mut self, c: TileCompression) { self.parameters.tile_compression = c; }
	fn get_tilejson(&self) -> &TileJSON { &self.tilejson }
	async fn get_tile_data(&self, coord: &TileCoord3) -> Result<Option<Blob>> {
		for _ in 0..self.yields { YieldOnce(false).await; }
		Ok(self.tiles.get(&(coord.z, coord.x, coord.y)).cloned())
	}
}

pub static REGISTRY: Mutex<Option<HashMap<String, Box<dyn TilesReaderTrait>>>> = Mutex::new(None);

pub fn register(name: &str, r: Box<dyn TilesReaderTrait>) {
	let mut g = REGISTRY.lock().unwrap();
	g.get_or_insert_with(HashMap::new).insert(name.to_string(), r);
}
/// sources whose opening (the factory's reader callback) suspends `n` times before it answers
pub static OPEN_YIELDS: Mutex<Option<HashMap<String, usize>>> = Mutex::new(None);
pub fn register_slow_open(name: &str, r: Box<dyn TilesReaderTrait>, n: usize) {
	register(name, r);
	OPEN_YIELDS.lock().unwrap().get_or_insert_with(HashMap::new).insert(name.to_string(), n);
}
pub fn take(name: &str) -> Option<Box<dyn TilesReaderTrait>> {
	let mut g = REGISTRY.lock().unwrap();
	g.get_or_insert_with(HashMap::new).remove(name)
}

/// PipelineFactory whose `from_container filename=<name>` resolves to registered harness readers;
/// other names fall through to the real container readers (files on disk).
pub fn factory() -> versatiles_pipeline::PipelineFactory {
	use futures::future::BoxFuture;
	let callback = Box::new(|filename: String| -> BoxFuture<'static, Result<Box<dyn TilesReaderTrait>>> {
		Box::pin(async move {
			let key = filename.rsplit('/').next().unwrap_or(&filename).to_string();
			if let Some(r) = take(&key) {
				let n = OPEN_YIELDS.lock().unwrap().get_or_insert_with(HashMap::new).remove(&key).unwrap_or(0);
				for _ in 0..n { YieldOnce(false).await; }
				Ok(r)
			} else {
				versatiles_container::get_reader(&filename).await
			}
		})
	});
	versatiles_pipeline::PipelineFactory::default(std::path::Path::new(""), callback)
}
