//! C18: VPL parser. Lines `vpl <code points> => <tree>|err` for the Coq model (Model/VPL.v) and
//! spec-level checks: rendering any syntax tree with any layout parses back to that tree; malformed
//! texts and bad operation arguments are errors, never panics.
use crate::memsrc::factory;
use crate::util::*;
use crate::Ctx;
use anyhow::Result;
use std::collections::BTreeMap;
use versatiles_pipeline::verif_hooks::{parse_vpl, VPLNode, VPLPipeline};

fn cps(s: &str) -> String { if s.is_empty() { "e".into() } else { s.chars().map(|c| (c as u32).to_string()).collect::<Vec<_>>().join(".") } }
fn arg_cps(s: &str) -> String { if s.is_empty() { "-".into() } else { s.chars().map(|c| (c as u32).to_string()).collect::<Vec<_>>().join(",") } }

pub fn fmt_node(n: &VPLNode) -> String {
	let props = n.properties.iter().map(|(k, v)| format!("{}:{}", cps(k), v.iter().map(|x| cps(x)).collect::<Vec<_>>().join("|"))).collect::<Vec<_>>().join(",");
	let srcs = n.sources.iter().map(fmt_pipe).collect::<Vec<_>>().join("/");
	format!("N({};{};{})", cps(&n.name), props, srcs)
}
pub fn fmt_pipe(p: &VPLPipeline) -> String { p.pipeline.iter().map(fmt_node).collect::<Vec<_>>().join("+") }

// canonical text (the Coq printer render_pipe): `name k="v" k2=["a","b"][src|src,src]`
fn canon_val(v: &[String]) -> String { if v.len() == 1 { quote(&v[0]) } else { format!("[{}]", v.iter().map(|x| quote(x)).collect::<Vec<_>>().join(",")) } }
fn canon_node(n: &VPLNode) -> String {
	let mut s = n.name.clone();
	for (k, v) in &n.properties { s.push_str(&format!(" {k}={}", canon_val(v))); }
	if !n.sources.is_empty() { s.push_str(&format!("[{}]", n.sources.iter().map(canon_pipe).collect::<Vec<_>>().join(","))); }
	s
}
pub fn canon_pipe(p: &VPLPipeline) -> String { p.pipeline.iter().map(canon_node).collect::<Vec<_>>().join("|") }

// ---------------- AST generation and rendering with layout freedom ----------------
fn gen_ident(rng: &mut Rng) -> String {
	let first = *rng.pick(&['a', 'b', 'z', 'A', 'f']);
	let mut s = first.to_string();
	for _ in 0..rng.below(5) { s.push(*rng.pick(&['a', 'x', '0', '9', '_', '-', 'Q'])); }
	s
}
fn gen_val(rng: &mut Rng) -> String {
	let n = *rng.pick(&[1usize, 1, 2, 3, 6, 0]);
	(0..n).map(|_| match rng.below(10) { 0 => '"', 1 => '\\', 2 => '\n', 3 => '\t', 4 => ' ', 5 => *rng.pick(&['é', '€', '😀', ',', ']', '[', '|', '=']), 6 => *rng.pick(&['n', 't']), _ => *rng.pick(&['a', 'Z', '0', '7', '.', '-', '_']) }).collect()
}
fn gen_node(rng: &mut Rng, depth: u32) -> VPLNode {
	let mut properties: BTreeMap<String, Vec<String>> = BTreeMap::new();
	for _ in 0..rng.below(4) { properties.insert(gen_ident(rng), (0..rng.range(1, 3)).map(|_| gen_val(rng)).collect()); }
	let sources = if depth > 0 && rng.chance(1, 2) { (0..rng.range(0, 3)).map(|_| gen_pipe(rng, depth - 1)).collect() } else { vec![] };
	VPLNode { name: gen_ident(rng), properties, sources }
}
fn gen_pipe(rng: &mut Rng, depth: u32) -> VPLPipeline { VPLPipeline { pipeline: (0..rng.range(1, 3)).map(|_| gen_node(rng, depth)).collect() } }

fn ws(rng: &mut Rng, min1: bool) -> String {
	let n = if min1 { rng.range(1, 3) } else { rng.below(3) };
	(0..n).map(|_| *rng.pick(&[' ', ' ', '\t', '\n', '\r'])).collect()
}
fn bare_ok(s: &str) -> bool { !s.is_empty() && s.chars().all(|c| c.is_ascii_alphanumeric() || ".-_".contains(c)) }
fn quote(s: &str) -> String { format!("\"{}\"", s.chars().map(|c| match c { '\\' => "\\\\".to_string(), '"' => "\\\"".to_string(), '\n' => if true { "\\n".to_string() } else { "\n".into() }, '\t' => "\\t".to_string(), c => c.to_string() }).collect::<String>()) }
fn render_val(rng: &mut Rng, s: &str) -> String { if bare_ok(s) && rng.chance(1, 2) { s.to_string() } else { quote(s) } }
fn render_node(rng: &mut Rng, n: &VPLNode) -> String {
	let mut o = format!("{}{}", ws(rng, false), n.name);
	for (k, v) in &n.properties {
		// a multi-valued property is either one bracket list or the key repeated
		if v.len() == 1 && rng.chance(2, 3) { o.push_str(&format!("{}{k}{}={}{}", ws(rng, true), ws(rng, false), ws(rng, false), render_val(rng, &v[0]))); }
		else if rng.chance(1, 2) { o.push_str(&format!("{}{k}{}={}[{}{}{}]", ws(rng, true), ws(rng, false), ws(rng, false), ws(rng, false), v.iter().map(|x| render_val(rng, x)).collect::<Vec<_>>().join(&format!("{},{}", ws(rng, false), ws(rng, false))), ws(rng, false))); }
		else { for x in v { o.push_str(&format!("{}{k}={}", ws(rng, true), render_val(rng, x))); } }
	}
	if !n.sources.is_empty() || rng.chance(1, 6) {
		o.push_str(&format!("{}[{}{}{}]", ws(rng, false), ws(rng, false), n.sources.iter().map(|p| render_pipe(rng, p)).collect::<Vec<_>>().join(","), ws(rng, false)));
	}
	o.push_str(&ws(rng, false));
	o
}
fn render_pipe(rng: &mut Rng, p: &VPLPipeline) -> String { p.pipeline.iter().map(|n| render_node(rng, n)).collect::<Vec<_>>().join("|") }

fn mutate(rng: &mut Rng, s: &str) -> String {
	let mut v: Vec<char> = s.chars().collect();
	if v.is_empty() { return "|".into(); }
	for _ in 0..rng.range(1, 2) {
		let i = rng.below(v.len() as u64) as usize;
		match rng.below(5) { 0 => { v.remove(i); } 1 => { let c = v[i]; v.insert(i, c); } 2 => v.insert(i, *rng.pick(&['[', ']', '"', '|', ',', '=', '\\', ' '])), 3 => { v[i] = *rng.pick(&['[', ']', '"', '|', ',', '=', 'x']); } _ => { v.truncate(i); } }
		if v.is_empty() { break; }
	}
	v.into_iter().collect()
}

pub fn run(ctx: &Ctx) -> Result<()> {
	let mut col = Collector::new(&ctx.out)?;
	let mut rng = Rng::new(ctx.seed ^ 0x18);
	let fixed = ["a", "a|b", "a b=1", "a b=\"\"", "a b=\"x\\ny\"", "a [ ]", "a [b,c|d]", "a k=[1,2] [ b ]", "a k=[ ]", "a k=[1,]", "a k=1 k=2", "a b", "a b= [c]", "a [b", "a ]", "", " ", "|", "a|", "a \"x\"", "a k=\"unterminated", "a k=\"bad\\x\"",
		"from_container filename=\"C:\\\\tiles\\\\new.mbtiles\"", "a\tb=c\n|\r d", "a k = v", "a k=v[b]", "a k=[\"x\",y , \"z\"]", "a [ b [ c [ d ] ] ]", "1a", "a 1=2", "a b=é", "a b=\"é😀\""];
	let mut texts: Vec<(String, Option<VPLPipeline>)> = fixed.iter().map(|s| (s.to_string(), None)).collect();
	let n = if ctx.thorough { 6000 } else { 700 };
	for i in 0..n {
		let ast = gen_pipe(&mut rng, (i % 4) as u32);
		let t = render_pipe(&mut rng, &ast);
		if i % 3 == 0 { texts.push((mutate(&mut rng, &t), None)); }
		// the canonical text of the Coq round-trip theorem: same text from both printers, and the
		// implementation reads it back to the tree
		let c = canon_pipe(&ast);
		col.out.line(&format!("vpl.render {} => {}", arg_cps(&c), arg_cps(&c)));
		col.spec_cases += 1;
		match guarded(|| parse_vpl(&c)) { Ok(Ok(p)) if p == ast => {} other => col.violation("canonical-roundtrip", &format!("vpl {}", arg_cps(&c)), &format!("vpl {}", arg_cps(&c)), &format!("canonical text {c:?} of tree {} parsed to {}", fmt_pipe(&ast), match other { Ok(Ok(p)) => fmt_pipe(&p), Ok(Err(_)) => "an error".into(), Err(m) => format!("panic {m}") })) }
		texts.push((t, Some(ast)));
	}
	for (t, ast) in &texts {
		let r = guarded(|| parse_vpl(t));
		let txt = match &r { Ok(Ok(p)) => format!("ok:{}", fmt_pipe(p)), Ok(Err(_)) => "err".into(), Err(_) => "panic".into() };
		col.out.line(&format!("vpl {} => {}", arg_cps(t), txt));
		col.spec_cases += 1;
		if r.is_err() { col.violation("parser-panic", &format!("vpl {}", arg_cps(t)), &format!("vpl {}", arg_cps(t)), "parse_vpl panicked"); }
		if let Some(a) = ast {
			match &r { Ok(Ok(p)) if p == a => {}
				other => col.violation("roundtrip", &format!("vpl {}", arg_cps(t)), &format!("vpl {}", arg_cps(t)),
					&format!("text {t:?} rendered from tree {} parsed to {}", fmt_pipe(a), match other { Ok(Ok(p)) => fmt_pipe(p), Ok(Err(e)) => format!("error {}", e.to_string().lines().next().unwrap_or("")), Err(m) => format!("panic {m}") })) }
		}
	}
	// build-level: unknown operations, missing / mistyped parameters are errors (never panics, never accepted)
	let rt = tokio::runtime::Builder::new_current_thread().enable_all().build()?;
	let bad = ["nonsense", "from_debug | nonsense", "from_container", "from_debug format=pbf | filter_zoom min=x", "from_debug format=pbf | filter_zoom min=256", "from_debug format=pbf | filter_zoom min=-1",
		"from_debug format=pbf | filter_bbox", "from_debug format=pbf | filter_bbox bbox=[1,2,3]", "from_debug format=pbf | filter_bbox bbox=[a,b,c,d]", "from_debug format=pbf | filter_bbox bbox=1",
		"from_overlayed", "from_overlayed [ from_debug format=pbf ]", "from_debug format=pbf | from_debug format=pbf", "filter_zoom min=1", "from_debug format=pbf | filter_zoom min=[1,2]", "from_vectortiles_merged [ ]"];
	for t in bad {
		let r = guarded(|| rt.block_on(factory().operation_from_vpl(t)));
		col.spec_cases += 1;
		match r { Ok(Err(_)) => {} Ok(Ok(_)) => col.violation("bad-pipeline-accepted", t, "", "an invalid pipeline was built without error"), Err(m) => col.violation("build-panic", t, "", &m) }
	}
	// build-level: the operations are chained in the order they are written.  The parameters an operation
	// advertises are the cumulative effect of the operations before it, so in the Debug nesting of
	// `r | u1 | u2 | u3` the parameters of the prefixes `r | u1 | u2`, `r | u1` must appear in that order.
	for k in 0..(if ctx.thorough { 40 } else { 8 }) {
		let n_ops = 2 + (k % 3);
		let mut ms: Vec<u8> = (0..n_ops).map(|i| 1 + 2 * i as u8 + (k as u8 % 2)).collect();   // strictly increasing minimum zooms
		if k % 4 == 3 { ms = ms.iter().map(|m| 20 - m).collect(); }                                 // or strictly decreasing maximum zooms
		let key = if k % 4 == 3 { "max" } else { "min" };
		let steps: Vec<String> = ms.iter().map(|m| format!("filter_zoom {key}={m}")).collect();
		let text = |j: usize| format!("from_debug format=pbf | {}", steps[..j].join(" | "));
		let built: Vec<Result<Box<dyn versatiles_pipeline::OperationTrait>, String>> = (1..=n_ops).map(|j| match guarded(|| rt.block_on(factory().operation_from_vpl(&text(j)))) { Ok(Ok(o)) => Ok(o), Ok(Err(e)) => Err(format!("{e:#}")), Err(m) => Err(m) }).collect();
		col.spec_cases += 1;
		if let Some(Err(e)) = built.iter().find(|b| b.is_err()) { col.violation("build-error", &text(n_ops), "", e); continue; }
		let ops: Vec<&Box<dyn versatiles_pipeline::OperationTrait>> = built.iter().map(|b| b.as_ref().unwrap()).collect();
		let dbg = format!("{:?}", ops[n_ops - 1]);
		let mut at = 0usize; let mut ok = true;
		for j in (0..n_ops).rev() { let p = format!("{:?}", ops[j].get_parameters()); match dbg[at..].find(&p) { Some(i) => at += i + p.len(), None => { ok = false; break; } } }
		if !ok { col.violation("operation-order", &text(n_ops), "", &format!("the operation built from {:?} does not nest the operations in written order (the advertised parameters of its prefixes do not appear outermost-to-innermost)", text(n_ops))); }
	}
	crate::pipeline::arg_lines_into(ctx, &mut col)?;
	col.finish()
}
