//! C17: JSON stringify / parse round trips, agreement with an independent strict RFC 8259 parser,
//! TileJSON through containers (see formats.rs) and lines for the Coq model (Model/Json.v).
use crate::util::*;
use crate::Ctx;
use anyhow::Result;
use std::io::Cursor;
use versatiles_core::byte_iterator::{parse_quoted_json_string, ByteIterator};
use versatiles_core::json::{parse_json_str, JsonValue};

fn cps(s: &str) -> String { if s.is_empty() { "-".into() } else { s.chars().map(|c| (c as u32).to_string()).collect::<Vec<_>>().join(",") } }

// ---------------- independent strict JSON parser (RFC 8259), written for the harness ----------------
#[derive(Debug, Clone, PartialEq)]
pub enum J { Null, Bool(bool), Num(f64), Str(String), Arr(Vec<J>), Obj(Vec<(String, J)>) }
struct P<'a> { s: &'a [u8], i: usize }
impl<'a> P<'a> {
	fn ws(&mut self) { while self.i < self.s.len() && matches!(self.s[self.i], b' ' | b'\t' | b'\n' | b'\r') { self.i += 1; } }
	fn val(&mut self, depth: usize) -> Option<J> {
		if depth > 512 { return None; }
		self.ws();
		match *self.s.get(self.i)? {
			b'n' => self.lit("null", J::Null), b't' => self.lit("true", J::Bool(true)), b'f' => self.lit("false", J::Bool(false)),
			b'"' => self.string().map(J::Str),
			b'[' => { self.i += 1; let mut v = Vec::new(); self.ws(); if *self.s.get(self.i)? == b']' { self.i += 1; return Some(J::Arr(v)); }
				loop { v.push(self.val(depth + 1)?); self.ws(); match *self.s.get(self.i)? { b',' => self.i += 1, b']' => { self.i += 1; return Some(J::Arr(v)); } _ => return None } } }
			b'{' => { self.i += 1; let mut v = Vec::new(); self.ws(); if *self.s.get(self.i)? == b'}' { self.i += 1; return Some(J::Obj(v)); }
				loop { self.ws(); let k = self.string()?; self.ws(); if *self.s.get(self.i)? != b':' { return None; } self.i += 1; let x = self.val(depth + 1)?; v.push((k, x)); self.ws();
					match *self.s.get(self.i)? { b',' => self.i += 1, b'}' => { self.i += 1; return Some(J::Obj(v)); } _ => return None } } }
			b'-' | b'0'..=b'9' => self.num(),
			_ => None,
		}
	}
	fn lit(&mut self, t: &str, v: J) -> Option<J> { if self.s[self.i..].starts_with(t.as_bytes()) { self.i += t.len(); Some(v) } else { None } }
	fn num(&mut self) -> Option<J> {
		let st = self.i;
		if self.s[self.i] == b'-' { self.i += 1; }
		match *self.s.get(self.i)? { b'0' => self.i += 1, b'1'..=b'9' => { while self.i < self.s.len() && self.s[self.i].is_ascii_digit() { self.i += 1; } } _ => return None }
		if self.s.get(self.i) == Some(&b'.') { self.i += 1; let d = self.i; while self.i < self.s.len() && self.s[self.i].is_ascii_digit() { self.i += 1; } if d == self.i { return None; } }
		if matches!(self.s.get(self.i), Some(b'e' | b'E')) { self.i += 1; if matches!(self.s.get(self.i), Some(b'+' | b'-')) { self.i += 1; } let d = self.i; while self.i < self.s.len() && self.s[self.i].is_ascii_digit() { self.i += 1; } if d == self.i { return None; } }
		std::str::from_utf8(&self.s[st..self.i]).ok()?.parse::<f64>().ok().map(J::Num)
	}
	fn string(&mut self) -> Option<String> {
		if *self.s.get(self.i)? != b'"' { return None; }
		self.i += 1; let mut out: Vec<u16> = Vec::new(); let mut raw: Vec<u8> = Vec::new();
		let flush = |raw: &mut Vec<u8>, out: &mut Vec<u16>| -> Option<()> { if !raw.is_empty() { out.extend(std::str::from_utf8(raw).ok()?.encode_utf16()); raw.clear(); } Some(()) };
		loop {
			let c = *self.s.get(self.i)?; self.i += 1;
			match c {
				b'"' => { flush(&mut raw, &mut out)?; return String::from_utf16(&out).ok(); }
				0..=0x1f => return None,                                   // control characters must be escaped
				b'\\' => { flush(&mut raw, &mut out)?; let e = *self.s.get(self.i)?; self.i += 1;
					match e { b'"' => out.push(34), b'\\' => out.push(92), b'/' => out.push(47), b'b' => out.push(8), b'f' => out.push(12), b'n' => out.push(10), b'r' => out.push(13), b't' => out.push(9),
						b'u' => { let h = self.s.get(self.i..self.i + 4)?; self.i += 4; out.push(u16::from_str_radix(std::str::from_utf8(h).ok()?, 16).ok()?); }
						_ => return None } }
				c => raw.push(c),
			}
		}
	}
}
pub fn strict_parse(s: &str) -> Option<J> { let mut p = P { s: s.as_bytes(), i: 0 }; let v = p.val(0)?; p.ws(); if p.i == s.len() { Some(v) } else { None } }

fn to_j(v: &JsonValue) -> J {
	match v {
		JsonValue::Null => J::Null, JsonValue::Boolean(b) => J::Bool(*b), JsonValue::Number(n) => J::Num(*n), JsonValue::String(s) => J::Str(s.clone()),
		JsonValue::Array(a) => J::Arr(a.0.iter().map(to_j).collect()),
		JsonValue::Object(o) => J::Obj(o.0.iter().map(|(k, v)| (k.clone(), to_j(v))).collect()),
	}
}

// ---------------- generators ----------------
fn gen_char(rng: &mut Rng) -> char {
	match rng.below(12) {
		0 => *rng.pick(&['"', '\\', '/', '\n', '\r', '\t', '\u{8}', '\u{c}']),
		1 => char::from_u32(rng.below(32) as u32).unwrap(),
		2 => char::from_u32(127 + rng.below(33) as u32).unwrap(),
		3 => *rng.pick(&['é', 'ß', '€', '✓', '中', '\u{ffff}', '\u{d7ff}', '\u{e000}']),
		4 => *rng.pick(&['😀', '🌟', '\u{10000}', '\u{10ffff}']),
		5 => *rng.pick(&['u', 'n', 'b', '0', 'f', 'A', 'a']),
		_ => (b' ' + rng.below(95) as u8) as char,
	}
}
fn gen_string(rng: &mut Rng) -> String { let n = *rng.pick(&[0usize, 1, 2, 3, 5, 17, 40]); (0..n).map(|_| gen_char(rng)).collect() }
fn gen_num(rng: &mut Rng) -> f64 {
	match rng.below(8) { 0 => 0.0, 1 => -0.0, 2 => rng.below(1000) as f64, 3 => -(rng.below(100000) as f64) / 8.0, 4 => 1e300, 5 => 5e-324, 6 => f64::from_bits(rng.next() & 0x7fef_ffff_ffff_ffff), _ => (rng.below(1 << 53) as f64) * 0.5 }
}
fn gen_value(rng: &mut Rng, depth: u32) -> JsonValue {
	match if depth == 0 { rng.below(4) } else { rng.below(7) } {
		0 => JsonValue::String(gen_string(rng)), 1 => JsonValue::Number(gen_num(rng)), 2 => JsonValue::Boolean(rng.chance(1, 2)), 3 => JsonValue::Null,
		4 => JsonValue::from((0..rng.below(4)).map(|_| gen_value(rng, depth - 1)).collect::<Vec<_>>()),
		_ => { let n = rng.below(4); JsonValue::Object(versatiles_core::json::JsonObject((0..n).map(|_| (gen_string(rng), gen_value(rng, depth - 1))).collect::<std::collections::BTreeMap<String, JsonValue>>())) }
	}
}

pub fn run(ctx: &Ctx) -> Result<()> {
	let mut col = Collector::new(&ctx.out)?;
	let mut rng = Rng::new(ctx.seed ^ 0x17);
	let n = if ctx.thorough { 20000 } else { 2500 };
	// (1) strings: quote, parse back (model lines), independent parser
	let mut strings: Vec<String> = vec!["".into(), "\"".into(), "\\".into(), "\u{1f}".into(), "\u{7f}\u{80}\u{9f}\u{a0}".into(), "a\u{0}b".into(), "😀".into(), "\u{ffff}\u{10000}".into()];
	for c in 0..=0x100u32 { strings.push(char::from_u32(c).unwrap().to_string()); }
	for _ in 0..n { strings.push(gen_string(&mut rng)); }
	for s in &strings {
		let q = JsonValue::String(s.clone()).stringify();
		col.out.line(&format!("json.quote {} => {}", cps(s), cps(&q)));
		col.spec_cases += 1;
		match guarded(|| parse_json_str(&q)) {
			Ok(Ok(JsonValue::String(b))) if &b == s => {}
			other => col.violation("string-roundtrip", &format!("json.quote {}", cps(s)), &format!("json.quote {}", cps(s)), &format!("parse(stringify(s)) = {:?}", other.map(|r| r.map_err(|e| e.to_string())))),
		}
		match strict_parse(&q) { Some(J::Str(b)) if &b == s => {} other => col.violation("not-standard-json", &format!("json.quote {}", cps(s)), &format!("json.quote {}", cps(s)), &format!("a strict RFC 8259 parser reads {:?}", other)) }
	}
	// (2) malformed / arbitrary quoted strings through parse_quoted_json_string
	let mut raws: Vec<String> = vec!["\"\\u00e9\"".into(), "\"\\u000é\"".into(), "\"\\u00é\"".into(), "\"\\ud800\"".into(), "\"\\uD83D\\uDE00\"".into(), "\"abc".into(), "\"\\".into(), "\"\\u12".into(), "\"\\x\"".into(), "\"\\u12G4\"".into(), "\"\\u0041\\u00DF\"".into(), "x".into(), "".into()];
	for _ in 0..n / 2 {
		let mut s = String::from("\"");
		for _ in 0..rng.below(8) { match rng.below(6) { 0 => { s.push('\\'); s.push(*rng.pick(&['u', 'n', '"', '\\', 'x', 'b', '/'])); } 1 => s.push_str(&format!("\\u{:04x}", rng.below(0x10000))), 2 => { s.push_str("\\u"); for _ in 0..rng.below(5) { s.push(gen_char(&mut rng)); } } _ => s.push(gen_char(&mut rng)) } }
		if rng.chance(5, 6) { s.push('"'); }
		if rng.chance(1, 4) { s.push_str("tail"); }
		raws.push(s);
	}
	for s in &raws {
		let r = guarded(|| { let mut it = ByteIterator::from_reader(Cursor::new(s.as_bytes().to_vec()), true); parse_quoted_json_string(&mut it) });
		let txt = match &r { Ok(Ok(v)) => format!("ok:{}", cps(v)), Ok(Err(_)) => "err".into(), Err(_) => "panic".into() };
		col.out.line(&format!("json.pstr {} => {}", cps(s), txt));
		if r.is_err() { col.violation("parse-panic", &format!("json.pstr {}", cps(s)), &format!("json.pstr {}", cps(s)), "parse_quoted_json_string panicked"); }
	}
	// (2b) long texts: every kind of escape at every offset around the reader's buffer borders (4096, 8192 bytes), through both the
	//      buffered reader and the in-memory iterator, inside a string, a document and a TileJSON
	{
		// (escaped surrogate pairs are not among them: the parser rejects them, and stringify never writes them)
		let escapes: [(&str, &str); 7] = [("\\u001f", "\u{1f}"), ("\\u00e9", "\u{e9}"), ("\u{1f600}", "\u{1f600}"), ("\\n", "\n"), ("\\\\", "\\"), ("\\\"", "\""), ("\u{e9}", "\u{e9}")];
		let pads: Vec<usize> = (4076..=4100).chain(8170..=8196).chain([12280usize, 12286, 12287, 12288]).collect();
		for (k, &pad) in pads.iter().enumerate() {
			for (e, (esc, ch)) in escapes.iter().enumerate() {
				if !ctx.thorough && (k + e) % 2 == 1 && !(4090..=4097).contains(&pad) { continue; }
				let text = format!("\"{}{esc}tail{esc}\"", "a".repeat(pad));
				let want = format!("{}{ch}tail{ch}", "a".repeat(pad));
				col.spec_cases += 1;
				let r1 = guarded(|| { let mut it = ByteIterator::from_reader(Cursor::new(text.as_bytes().to_vec()), true); parse_quoted_json_string(&mut it) });
				if !matches!(&r1, Ok(Ok(v)) if *v == want) { col.violation("long-string", &format!("{pad} x 'a' + {esc} + tail + {esc} (buffered reader)"), "", &format!("got {:?}", r1.as_ref().map(|r| r.as_ref().map(|v| { let t: String = v.chars().skip(pad.saturating_sub(2)).collect(); t }).map_err(|e| e.to_string())))); }
				let r2 = guarded(|| parse_json_str(&format!("{{\"k\":{text},\"z\":[1,{text}]}}")));
				let ok2 = match &r2 { Ok(Ok(v)) => v.stringify() == JsonValue::parse_str(&format!("{{\"k\":{},\"z\":[1,{}]}}", JsonValue::String(want.clone()).stringify(), JsonValue::String(want.clone()).stringify())).map(|x| x.stringify()).unwrap_or_default() && v.stringify().contains("tail"), _ => false };
				// independent of the parser under test: the strict parser reads the same text
				let ok3 = matches!(strict_parse(&text), Some(J::Str(b)) if b == want);
				if !ok2 || !ok3 { col.violation("long-document", &format!("document with {pad} x 'a' + {esc} + tail + {esc}"), "", &format!("parse_json_str: {}; strict parser agrees with the expectation: {ok3}", if ok2 { "ok" } else { "differs" })); }
				if let Ok(Ok(JsonValue::Object(o))) = &r2 { if !matches!(o.get("k"), Some(JsonValue::String(v)) if *v == want) { col.violation("long-document", &format!("document with {pad} x 'a' + {esc}"), "", "member k differs from what was written"); } }
				let tj = versatiles_core::tilejson::TileJSON::try_from(format!("{{\"attribution\":{text},\"name\":\"n\"}}").as_str());
				if !matches!(&tj, Ok(t) if t.get_str("attribution") == Some(want.as_str()) && t.get_str("name") == Some("n")) { col.violation("long-tilejson", &format!("TileJSON with an attribution of {pad} x 'a' + {esc} + tail"), "", "attribution or name differs from what was written"); }
			}
		}
	}
	// (3) values
	for _ in 0..n / 2 {
		let v = gen_value(&mut rng, 3);
		let text = v.stringify();
		col.spec_cases += 1;
		let finite = !text.contains("NaN") && !text.contains("inf");
		match guarded(|| parse_json_str(&text)) {
			Ok(Ok(b)) if b == v => {}
			other => col.violation("value-roundtrip", &format!("json.val {}", cps(&text)), &format!("json.val {}", cps(&text)), &format!("parse(stringify(v)) != v: {:?}", other.map(|r| r.map(|x| x.stringify()).map_err(|e| e.to_string())))),
		}
		if finite { match strict_parse(&text) { Some(j) if j == to_j(&v) => {} other => col.violation("not-standard-json", &format!("json.val {}", cps(&text)), &format!("json.val {}", cps(&text)), &format!("strict parser: {:?}", other.is_some())) } }
		if text.len() < 600 { col.out.line(&format!("json.val {} => ok:{}", cps(&text), cps(&text))); }
	}
	// (5) TileJSON merge and narrowing against the Coq model (Model/TileJson.v): documents with integer bounds / center, byte, string
	//     and list values (also zoom limits of the wrong type), merged pairwise and limited by boxes and zoom bounds
	{
		use versatiles_core::tilejson::TileJSON; use versatiles_core::json::JsonValue; use versatiles_core::types::GeoBBox;
		let hexs = |s: &str| -> String { if s.is_empty() { "-".into() } else { hex(s.as_bytes()) } };
		let gen_doc = |rng: &mut Rng| -> String {
			let mut o: Vec<String> = Vec::new();
			if rng.chance(1, 2) { let (a, b) = (rng.below(360) as i64 - 180, rng.below(360) as i64 - 180); let (c, d) = (rng.below(180) as i64 - 90, rng.below(180) as i64 - 90); o.push(format!("\"bounds\":[{},{},{},{}]", a.min(b), c.min(d), a.max(b), c.max(d))); }
			if rng.chance(1, 3) { o.push(format!("\"center\":[{},{},{}]", rng.below(360) as i64 - 180, rng.below(180) as i64 - 90, rng.below(20))); }
			for key in ["minzoom", "maxzoom"] { match rng.below(8) { 0 | 1 | 2 => {} 3 => o.push(format!("\"{key}\":\"{}\"", rng.below(9))), 4 => o.push(format!("\"{key}\":[\"x\"]")), _ => o.push(format!("\"{key}\":{}", rng.pick(&[0u8, 1, 2, 3, 5, 9, 14, 22, 255]))) } }
			for key in ["name", "description", "x", "tiles", "fillzoom", "tilejson", "Ünï"] { match rng.below(6) { 0 => o.push(format!("\"{key}\":{}", jstr(*rng.pick(&["a", "", "b c", "ü✓", "3.0.0"])))), 1 => o.push(format!("\"{key}\":[{}]", (0..rng.below(3)).map(|_| jstr(*rng.pick(&["u", "v w", ""]))).collect::<Vec<_>>().join(","))), 2 => o.push(format!("\"{key}\":{}", rng.below(256))), _ => {} } }
			format!("{{{}}}", o.join(","))
		};
		let show = |t: &TileJSON| -> String {
			let b = t.bounds.as_ref().map_or("-".to_string(), |b| format!("{},{},{},{}", b.0 as i64, b.1 as i64, b.2 as i64, b.3 as i64));
			let c = t.center.as_ref().map_or("-".to_string(), |c| format!("{},{},{}", c.0 as i64, c.1 as i64, c.2));
			let mut vs: Vec<String> = t.values.iter_json_values().map(|(k, v)| format!("{}:{}", hexs(&k), match v { JsonValue::Number(n) => format!("B{}", n as u64), JsonValue::String(x) => format!("S{}", hexs(&x)), JsonValue::Array(a) => format!("L{}", a.0.iter().map(|e| match e { JsonValue::String(x) => hexs(x), _ => "?".into() }).collect::<Vec<_>>().join(".")), _ => "?".into() })).collect();
			vs.sort();
			format!("{b};{c};{}", if vs.is_empty() { "-".to_string() } else { vs.join("&") })
		};
		let mut done = 0;
		while done < (if ctx.thorough { 4000 } else { 500 }) {
			let (ta, tb) = (gen_doc(&mut rng), gen_doc(&mut rng));
			let (Ok(a), Ok(b)) = (TileJSON::try_from(ta.as_str()), TileJSON::try_from(tb.as_str())) else { continue };
			done += 1;
			let mut m = a.clone();
			let r = guarded(|| { let mut m2 = m.clone(); m2.merge(&b).map(|_| m2) });
			let txt = match r { Ok(Ok(m2)) => { m = m2; show(&m) } Ok(Err(_)) => "err".into(), Err(_) => "panic".into() };
			col.out.line(&format!("tj.merge {} {} => {txt}", show(&a), show(&b)));
			// merged into the default document, as the tar and directory readers do
			let mut d = TileJSON::default();
			let txt = match guarded(|| { let mut d2 = d.clone(); d2.merge(&a).map(|_| d2) }) { Ok(Ok(d2)) => { d = d2; show(&d) } Ok(Err(_)) => "err".into(), Err(_) => "panic".into() };
			col.out.line(&format!("tj.merge {} {} => {txt}", show(&TileJSON::default()), show(&a)));
			// narrowing
			let bb = if rng.chance(2, 3) { let (x, y) = (rng.below(360) as i64 - 180, rng.below(360) as i64 - 180); let (u, v) = (rng.below(180) as i64 - 90, rng.below(180) as i64 - 90); Some((x.min(y), u.min(v), x.max(y), u.max(v))) } else { None };
			let zmin = if rng.chance(2, 3) { Some(rng.below(12) as u8) } else { None }; let zmax = if rng.chance(2, 3) { Some(rng.below(24) as u8) } else { None };
			let mut l = a.clone();
			if let Some(q) = bb { l.limit_bbox(GeoBBox(q.0 as f64, q.1 as f64, q.2 as f64, q.3 as f64)); }
			if let Some(z) = zmin { l.limit_min_zoom(z); } if let Some(z) = zmax { l.limit_max_zoom(z); }
			col.out.line(&format!("tj.limit {} {} {} {} => {}", show(&a), bb.map_or("-".to_string(), |q| format!("{},{},{},{}", q.0, q.1, q.2, q.3)), zmin.map_or("-".to_string(), |z| z.to_string()), zmax.map_or("-".to_string(), |z| z.to_string()), show(&l)));
			let _ = (m, d);
		}
	}
	// (6) vector_layers against the Coq model (Model/VectorLayers.v): two documents that carry layer lists only are merged
	{
		use versatiles_core::tilejson::TileJSON;
		let hexs = |s: &str| -> String { if s.is_empty() { "".into() } else { hex(s.as_bytes()) } };
		let gen = |rng: &mut Rng| -> String {
			let mut ids: Vec<&str> = vec!["a", "b", "roads", "ü", "water", "ab"]; let mut out = Vec::new();
			for _ in 0..rng.below(4) { let k = rng.below(ids.len() as u64) as usize; let id = ids.remove(k);
				let mut keys: Vec<&str> = vec!["x", "y", "name", "k", "ÿ"]; let mut fs = Vec::new();
				for _ in 0..rng.below(4) { let j = rng.below(keys.len() as u64) as usize; let key = keys.remove(j); fs.push(format!("{}:{}", jstr(key), jstr(*rng.pick(&["String", "Number", "Boolean", ""])))); }
				let mut o = vec![format!("\"id\":{}", jstr(id)), format!("\"fields\":{{{}}}", fs.join(","))];
				if rng.chance(1, 2) { o.push(format!("\"description\":{}", jstr(*rng.pick(&["d", "desc ü", ""])))); }
				if rng.chance(1, 2) { o.push(format!("\"minzoom\":{}", rng.below(31))); } if rng.chance(1, 2) { o.push(format!("\"maxzoom\":{}", rng.below(31))); }
				out.push(format!("{{{}}}", o.join(","))); }
			format!("{{\"vector_layers\":[{}]}}", out.join(","))
		};
		let show = |t: &TileJSON| -> String {
			let v: Vec<String> = t.vector_layers.0.iter().map(|(id, l)| format!("{}/{}/{}/{}/{}", hexs(id),
				if l.fields.is_empty() { "-".to_string() } else { l.fields.iter().map(|(k, v)| format!("{}={}", hexs(k), hexs(v))).collect::<Vec<_>>().join(",") },
				l.description.as_ref().map_or("-".to_string(), |d| format!("S{}", hexs(d))), l.minzoom.map_or("-".to_string(), |z| z.to_string()), l.maxzoom.map_or("-".to_string(), |z| z.to_string()))).collect();
			if v.is_empty() { "-".to_string() } else { v.join("&") }
		};
		let mut done = 0;
		while done < (if ctx.thorough { 3000 } else { 400 }) {
			let (ta, tb) = (gen(&mut rng), gen(&mut rng));
			let (Ok(a), Ok(b)) = (TileJSON::try_from(ta.as_str()), TileJSON::try_from(tb.as_str())) else { continue };
			done += 1; col.spec_cases += 1;
			let a2 = if done % 5 == 0 { TileJSON::default() } else { a };
			let txt = match guarded(|| { let mut m = a2.clone(); m.merge(&b).map(|_| m) }) { Ok(Ok(m)) => show(&m), Ok(Err(_)) => "err".into(), Err(_) => "panic".into() };
			col.out.line(&format!("tj.vl {} {} => {txt}", show(&a2), show(&b)));
			// merged into the default document: the layers come back as they are
			if done % 5 == 0 && txt != show(&b) { col.violation("vector-layers-into-default", &tb, &tb, &format!("merged into TileJSON::default(): {txt}, given {}", show(&b))); }
		}
	}
	crate::formats::run_meta(ctx, &mut col)?;
	col.finish()
}
