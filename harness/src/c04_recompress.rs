//! C04: recompression changes only the encoding.  Exhaustive decision tables (lines for the model)
//! and end-to-end conversions decoded with independent inflaters (flate2 / brotli used directly).
use crate::formats::{gen_tiles, TileMap};
use crate::memsrc::MemSource;
use crate::util::*;
use crate::Ctx;
use anyhow::Result;
use enumset::EnumSet;
use std::collections::{BTreeMap, HashMap};
use std::io::Read;
use versatiles_container::tile_converter::TileConverter;
use versatiles_container::{convert_tiles_container, get_reader, TilesConverterParameters};
use versatiles_core::tilejson::TileJSON;
use versatiles_core::types::*;
use versatiles_core::utils::{compress, optimize_compression, recompress, TargetCompression};

const COMPS: [TileCompression; 3] = [TileCompression::Uncompressed, TileCompression::Gzip, TileCompression::Brotli];
fn cname(c: &TileCompression) -> &'static str { match c { TileCompression::Uncompressed => "U", TileCompression::Gzip => "G", TileCompression::Brotli => "B" } }

/// independent decoders (not the repository's wrappers)
pub fn indep_decode(c: &TileCompression, b: &[u8]) -> Option<Vec<u8>> {
	match c {
		TileCompression::Uncompressed => Some(b.to_vec()),
		TileCompression::Gzip => { let mut d = flate2::read::GzDecoder::new(b); let mut o = Vec::new(); d.read_to_end(&mut o).ok()?; Some(o) }
		TileCompression::Brotli => { let mut o = Vec::new(); let mut cur = std::io::Cursor::new(b); brotli::BrotliDecompress(&mut cur, &mut o).ok()?; Some(o) }
	}
}

struct V { kind: String, input: String, detail: String }

fn crc32_bytes(data: &[u8]) -> u32 { let mut c = 0xffff_ffffu32; for b in data { c ^= *b as u32; for _ in 0..8 { c = if c & 1 != 0 { (c >> 1) ^ 0xedb8_8320 } else { c >> 1 }; } } !c }
/// two 3000-byte payloads that differ in their first 8 bytes only and have the same CRC32 (a birthday search over the 8-byte
/// prefixes: equal CRC state behind the prefix means equal CRC of the whole)
fn crc_colliding_pair(rng: &mut Rng) -> (Vec<u8>, Vec<u8>) {
	let suffix = rng.bytes(2992);
	let mut seen: HashMap<u32, [u8; 8]> = HashMap::new();
	loop {
		let p: [u8; 8] = rng.next().to_le_bytes();
		let c = crc32_bytes(&p);
		if let Some(q) = seen.get(&c) { if *q != p { let mut a = q.to_vec(); a.extend(&suffix); let mut b = p.to_vec(); b.extend(&suffix); debug_assert_eq!(crc32_bytes(&a), crc32_bytes(&b)); return (a, b); } }
		seen.insert(c, p);
	}
}

pub fn run(ctx: &Ctx) -> Result<()> {
	let rt = tokio::runtime::Builder::new_multi_thread().worker_threads(4).enable_all().build()?;
	let mut out = Out::create(&ctx.out, "cases.txt")?;
	let mut viol: Vec<V> = Vec::new();
	let mut stats: BTreeMap<String, u64> = BTreeMap::new();
	let mut rng = Rng::new(ctx.seed ^ 0xC04);

	// (a) exhaustive decision tables
	for s in &COMPS { for d in &COMPS { for force in [false, true] {
		let r = guarded(|| TileConverter::new_tile_recompressor(s, d, force).map(|c| c.as_string()));
		let txt = match r { Ok(Ok(t)) => if t.is_empty() { "-".into() } else { t }, Ok(Err(_)) => "err".into(), Err(_) => "panic".into() };
		out.line(&format!("recomp {} {} {} => {}", cname(s), cname(d), force as u8, txt));
	} } }
	let sample = Blob::from(b"some payload that compresses fine: aaaaaaaaaaaaaaaaaaaaaaaaaaaaaaaaaaaaaaaaaaaaaaaa".to_vec());
	for input in &COMPS { for bits in 0..8u32 { for goal in 0..3u32 {
		let mut set: EnumSet<TileCompression> = EnumSet::empty();
		if bits & 1 != 0 { set.insert(TileCompression::Uncompressed); }
		if bits & 2 != 0 { set.insert(TileCompression::Gzip); }
		if bits & 4 != 0 { set.insert(TileCompression::Brotli); }
		let mut t = TargetCompression::from_set(set);
		match goal { 0 => t.set_fast_compression(), 2 => t.set_incompressible(), _ => {} }
		let stored = compress(sample.clone(), input)?;
		let r = guarded(|| optimize_compression(stored.clone(), input, &t));
		let txt = match r {
			Ok(Ok((b, c))) => {
				// what the body decodes to must be the payload (independent decoder)
				if indep_decode(&c, b.as_slice()).as_deref() != Some(sample.as_slice()) {
					viol.push(V { kind: "optimize-payload".into(), input: format!("optc {} {bits} {goal}", cname(input)), detail: "body does not decode to the stored payload".into() });
				}
				if !set.contains(c) { viol.push(V { kind: "optimize-encoding".into(), input: format!("optc {} {bits} {goal}", cname(input)), detail: format!("encoding {c:?} not allowed by the client") }); }
				format!("{}:{}", cname(&c), if b.as_slice() == stored.as_slice() { "same" } else { "changed" })
			}
			Ok(Err(_)) => "err".into(), Err(_) => "panic".into() };
		out.line(&format!("optc {} {bits} {goal} => {txt}", cname(input)));
	} } }
	// utils::recompress on payload classes
	let payloads: Vec<Vec<u8>> = vec![vec![], vec![0], rng.bytes(70_000), vec![b'a'; 200_000], rng.bytes(999), b"{\"a\":1}".to_vec()];
	for p in &payloads { for s in &COMPS { for d in &COMPS {
		let stored = compress(Blob::from(p.clone()), s)?;
		let desc = format!("recompress {}->{} payload_len={}", cname(s), cname(d), p.len());
		match guarded(|| recompress(stored.clone(), s, d)) {
			Ok(Ok(b)) => if indep_decode(d, b.as_slice()).as_deref() != Some(p.as_slice()) { viol.push(V { kind: "recompress".into(), input: desc, detail: "output does not decode to the payload".into() }); },
			other => viol.push(V { kind: "recompress-fail".into(), input: desc, detail: format!("{:?}", other.map(|r| r.map(|_| ()).map_err(|e| e.to_string()))) }),
		}
		for force in [false, true] {
			let desc = format!("process_blob {}->{} force={force} payload_len={}", cname(s), cname(d), p.len());
			match guarded(|| TileConverter::new_tile_recompressor(s, d, force).and_then(|c| c.process_blob(stored.clone()))) {
				Ok(Ok(b)) => if indep_decode(d, b.as_slice()).as_deref() != Some(p.as_slice()) { viol.push(V { kind: "process_blob".into(), input: desc, detail: "output does not decode to the payload".into() }); },
				other => viol.push(V { kind: "process_blob-fail".into(), input: desc, detail: format!("{:?}", other.map(|r| r.map(|_| ()).map_err(|e| e.to_string()))) }),
			}
			*stats.entry("blob_cases".into()).or_insert(0) += 1;
		}
	} } }

	// (b) end-to-end conversions
	let dir = std::fs::canonicalize(&ctx.out)?.join("files"); std::fs::create_dir_all(&dir)?;
	let nsets = if ctx.thorough { 12 } else { 2 };
	let containers: &[&str] = if ctx.thorough { &["versatiles", "pmtiles", "tar", "dir", "mbtiles"] } else { &["versatiles", "pmtiles", "tar"] };
	for i in 0..nsets {
		let mut tiles: TileMap = gen_tiles(&mut rng, false);
		// two different payloads of equal length with equal CRC32 (and, being incompressible, equal compressed length):
		// content fingerprints weaker than the content must not merge them
		// a tile of more than 64 KiB that stays that large in every encoding, between small tiles of the same block (write buffers,
		// chunked codecs and length fields have their borders there)
		{ let (x, y) = (rng.below(50) as u32, 62u32); tiles.insert((6, x, y), rng.bytes(20)); tiles.insert((6, x + 1, y), rng.bytes(70_000)); tiles.insert((6, x + 2, y), rng.bytes(33)); tiles.insert((6, x + 3, y), rng.bytes(66_000)); }
		{ let (a, b) = crc_colliding_pair(&mut rng); let z = 6u8; let (x, y) = (rng.below(60) as u32, rng.below(60) as u32); tiles.insert((z, x, y), a); tiles.insert((z, x + 1, y), b); }
		let mut tj = TileJSON::default(); let _ = tj.set_string("name", "c04 metadata ✓");
		for s in &COMPS { for d in [None, Some(TileCompression::Uncompressed), Some(TileCompression::Gzip), Some(TileCompression::Brotli)] { for force in [false, true] { for c in containers {
			if !ctx.thorough && rng.below(3) != 0 { continue; }
			// raster, vector and opaque formats in turn (the conversion rules may not depend on the format)
			let format = if *c == "mbtiles" { *rng.pick(&[TileFormat::PBF, TileFormat::PNG, TileFormat::JPG, TileFormat::WEBP]) } else { *rng.pick(&[TileFormat::BIN, TileFormat::PNG, TileFormat::PBF, TileFormat::JPG, TileFormat::WEBP, TileFormat::AVIF]) };
			let stored: Vec<((u8, u32, u32), Vec<u8>)> = tiles.iter().map(|(k, v)| (*k, compress(Blob::from(v.clone()), s).unwrap().into_vec())).collect();
			let src = MemSource::new("mem", stored, format, *s).with_tilejson(tj.clone());
			let path = if *c == "dir" { let p = dir.join(format!("o{i}")); let _ = std::fs::remove_dir_all(&p); std::fs::create_dir_all(&p)?; p } else { dir.join(format!("o{i}.{c}")) };
			let desc = format!("convert set={i} tiles={} format={format:?} {}->{:?} force={force} container={c}", tiles.len(), cname(s), d.as_ref().map(cname));
			let cp = TilesConverterParameters::new(d, None, force, false, false);
			let pstr = path.to_str().unwrap().to_string();
			let w = guarded(|| rt.block_on(convert_tiles_container(Box::new(src), cp, &pstr)));
			match w {
				Err(m) => { viol.push(V { kind: "convert-panic".into(), input: desc, detail: m }); continue; }
				Ok(Err(e)) => { let m = format!("{e:#}"); if !m.contains("not supported") { viol.push(V { kind: "convert-error".into(), input: desc, detail: m }); } continue; }
				Ok(Ok(())) => {}
			}
			let reader = match guarded(|| rt.block_on(get_reader(&pstr))) { Ok(Ok(r)) => r, other => { viol.push(V { kind: "open".into(), input: desc, detail: format!("{:?}", other.map(|r| r.map(|_| ()).map_err(|e| format!("{e:#}")))) }); continue; } };
			let declared = reader.get_parameters().tile_compression;
			let want = d.unwrap_or(*s);
			if declared != want { viol.push(V { kind: "declared".into(), input: desc.clone(), detail: format!("output declares {declared:?}, requested {want:?}") }); }
			let mut bad = None;
			let by: HashMap<_, _> = tiles.iter().filter(|(_, v)| !v.is_empty()).collect();
			for ((z, x, y), payload) in by.iter().take(400) {
				let r = rt.block_on(reader.get_tile_data(&TileCoord3 { x: *x, y: *y, z: *z }));
				let ok = matches!(&r, Ok(Some(b)) if indep_decode(&declared, b.as_slice()).as_deref() == Some(payload.as_slice()));
				if !ok { bad = Some(format!("tile {z}/{x}/{y} does not decode (with the declared {declared:?}) to the source payload")); break; }
			}
			if let Some(b) = bad { viol.push(V { kind: "tile-payload".into(), input: desc.clone(), detail: b }); }
			if *c != "mbtiles" && reader.get_tilejson().get_str("name") != Some("c04 metadata ✓") { viol.push(V { kind: "metadata".into(), input: desc.clone(), detail: format!("name read back as {:?}", reader.get_tilejson().get_str("name")) }); }
			*stats.entry("conversions".into()).or_insert(0) += 1;
			if *c == "dir" { let _ = std::fs::remove_dir_all(&path); } else { let _ = std::fs::remove_file(&path); }
		} } } }
	}
	let _ = std::fs::remove_dir_all(&dir);
	let lines = out.lines;
	out.finish();
	let mut v = Out::create(&ctx.out, "spec_violations.jsonl")?;
	for x in &viol { v.line(&format!("{{\"kind\":{},\"input\":{},\"replay\":{},\"detail\":{}}}", jstr(&x.kind), jstr(&x.input), jstr(&x.input), jstr(&x.detail))); }
	v.finish();
	let mut s = Out::create(&ctx.out, "stats.json")?;
	s.line(&format!("{{\"lines\":{lines},\"spec_cases\":{},\"spec_violations\":{},\"groups\":{{{}}}}}", stats.values().sum::<u64>(), viol.len(),
		stats.iter().map(|(k, v)| format!("{}:{}", jstr(k), v)).collect::<Vec<_>>().join(",")));
	s.finish();
	Ok(())
}
