//! Pipelines over in-memory sources: filter_zoom, filter_bbox, from_overlayed, TilesConvertReader.
//! Algorithm-level lines for the Coq model (Model/Pipeline.v) and spec-level checks for
//! C02 (stream = lookups in box), C03 (coverage sound), C06 (converter), C08 (overlay), C09 (filters).
use crate::c15_bbox::fb;
use crate::memsrc::*;
use crate::util::*;
use crate::Ctx;
use anyhow::Result;
use futures::future::BoxFuture;
use std::collections::{BTreeMap, HashMap};
use versatiles_container::{PipelineReader, TilesConvertReader, TilesConverterParameters};
use versatiles_core::types::*;
use versatiles_pipeline::OperationTrait;

pub type Tile = ((u8, u32, u32), u64);

#[derive(Clone, Debug)]
pub enum E {
	Leaf(Vec<Tile>),
	Zoom(Option<u8>, Option<u8>, Box<E>),
	BBox([f64; 4], Box<E>),
	Over(Vec<E>),
	Conv(bool, bool, Option<Vec<TileBBox>>, Box<E>),
}

pub const ZMAX: u8 = 5; // tiles live at levels 0..=ZMAX; geo boxes are passed to the model for levels 0..=ZMAX

fn payload(id: u64) -> Vec<u8> { let mut v = b"tile".to_vec(); v.extend_from_slice(&id.to_le_bytes()); v }
fn payload_id(b: &Blob, comp: &TileCompression) -> Option<u64> {
	let b = versatiles_core::utils::decompress(b.clone(), comp).ok()?;
	let s = b.as_slice();
	if s.len() == 12 && &s[0..4] == b"tile" { Some(u64::from_le_bytes(s[4..12].try_into().unwrap())) } else { None }
}

static COUNTER: std::sync::atomic::AtomicU64 = std::sync::atomic::AtomicU64::new(0);
fn fresh(prefix: &str) -> String { format!("{prefix}{}", COUNTER.fetch_add(1, std::sync::atomic::Ordering::SeqCst)) }

fn pyramid_of(boxes: &[TileBBox]) -> TileBBoxPyramid {
	let mut p = TileBBoxPyramid::new_empty();
	for b in boxes { p.set_level_bbox(b.clone()); }
	p
}

/// VPL text of an expression; registers leaf sources / converter readers on the way
pub fn to_vpl(e: &E) -> BoxFuture<'_, Result<String>> {
	Box::pin(async move {
		Ok(match e {
			E::Leaf(tiles) => {
				let name = fresh("m");
				// leaves store their tiles uncompressed, gzip'ed or brotli'ed (a function of the content, so that rebuilding an expression
				// gives the same source); every answer is decoded with the compression the queried operation declares
				let comp = [TileCompression::Uncompressed, TileCompression::Gzip, TileCompression::Uncompressed, TileCompression::Brotli][(tiles.len() + tiles.iter().map(|t| t.1 as usize % 7).sum::<usize>()) % 4];
				let src = MemSource::new(&name, tiles.iter().map(|(c, id)| (*c, versatiles_core::utils::compress(Blob::from(payload(*id)), &comp).unwrap().into_vec())).collect(), TileFormat::BIN, comp).with_yields(tiles.len() % 3); // some leaves suspend before they answer, as readers doing I/O do
				// ... and some suspend while they are being opened: the earlier listed a source, the longer it takes
				let open_yields = [3usize, 0, 2, 0, 1][tiles.len() % 5];
				crate::memsrc::register_slow_open(&name, Box::new(src), open_yields);
				format!("from_container filename={name}")
			}
			E::Zoom(a, b, inner) => format!("{} | filter_zoom{}{}", to_vpl(inner).await?,
				a.map_or(String::new(), |v| format!(" min={v}")), b.map_or(String::new(), |v| format!(" max={v}"))),
			E::BBox(g, inner) => format!("{} | filter_bbox bbox=[{},{},{},{}]", to_vpl(inner).await?, g[0], g[1], g[2], g[3]),
			E::Over(es) => {
				let mut parts = Vec::new();
				for x in es { parts.push(to_vpl(x).await?); }
				format!("from_overlayed [ {} ]", parts.join(", "))
			}
			E::Conv(flip, swap, req, inner) => {
				let op = build(inner).await?;
				let parameters = op.get_parameters().clone();
				let reader = PipelineReader { name: fresh("p"), operation: op, parameters };
				let cp = TilesConverterParameters::new(None, req.as_ref().map(|b| pyramid_of(b)), false, *flip, *swap);
				let conv = TilesConvertReader::new_from_reader(Box::new(reader), cp)?;
				let name = fresh("c");
				register(&name, Box::new(conv));
				format!("from_container filename={name}")
			}
		})
	})
}

pub async fn build(e: &E) -> Result<Box<dyn OperationTrait>> {
	let vpl = to_vpl(e).await?;
	factory().operation_from_vpl(&vpl).await
}

// ---------------- model-side text of an expression ----------------
/// tile boxes of a geographic box on all levels as the implementation computes them; each is compared with the boxes
/// that independently computed coordinates allow (C15's oracle) - disagreements are collected and reported by run_into
pub static GEO_MISMATCH: std::sync::Mutex<Vec<(String, String)>> = std::sync::Mutex::new(Vec::new());
fn geo_boxes(g: &[f64; 4]) -> Result<Vec<TileBBox>> {
	let v: Vec<TileBBox> = (0..=31u8).map(|z| TileBBox::from_geo(z, &GeoBBox(g[0], g[1], g[2], g[3]))).collect::<Result<_>>()?;
	for (z, b) in v.iter().enumerate() {
		let (ok_x, ok_y, xl, xh, yl, yh) = crate::c15_bbox::geo_allowed(z as u8, g, b);
		if !ok_x || !ok_y || b.is_empty() { let mut m = GEO_MISMATCH.lock().unwrap(); if m.len() < 50 { m.push((format!("geo.cover {z} {:?} {:?} {:?} {:?}", g[0], g[1], g[2], g[3]), format!("from_geo gives {}, independent coordinates allow x_min {xl:?} x_max {xh:?} y_min {yl:?} y_max {yh:?}", fb(b)))); } }
	}
	Ok(v)
}
pub fn expr_tokens(e: &E) -> Result<String> {
	Ok(match e {
		E::Leaf(t) => format!("leaf {} {}", t.len(), t.iter().map(|((z, x, y), id)| format!("{z} {x} {y} {id}")).collect::<Vec<_>>().join(" ")).trim_end().to_string(),
		E::Zoom(a, b, i) => format!("zoom {} {} {}", a.map_or("-".into(), |v| v.to_string()), b.map_or("-".into(), |v| v.to_string()), expr_tokens(i)?),
		E::BBox(g, i) => { let bs = geo_boxes(g)?; format!("bbox {} {} {}", bs.len(), bs.iter().map(fb).collect::<Vec<_>>().join(" "), expr_tokens(i)?) }
		E::Over(es) => format!("over {} {}", es.len(), es.iter().map(expr_tokens).collect::<Result<Vec<_>>>()?.join(" ")),
		E::Conv(f, s, req, i) => format!("conv {} {} {} {}", *f as u8, *s as u8,
			match req { None => "-".to_string(), Some(b) => { let p = pyramid_of(b); // positional: levels 0..=ZMAX, absent levels as new_empty
				format!("{} {}", ZMAX + 1, (0..=ZMAX).map(|z| fb(p.get_level_bbox(z))).collect::<Vec<_>>().join(" ")) } }, expr_tokens(i)?),
	})
}

// ---------------- reference semantics (layer S) ----------------
/// the tile map an expression denotes, restricted to levels 0..=ZMAX
pub fn spec_map(e: &E) -> Result<HashMap<(u8, u32, u32), u64>> {
	Ok(match e {
		E::Leaf(t) => { let mut m = HashMap::new(); for (c, id) in t { m.entry(*c).or_insert(*id); } m }
		E::Zoom(a, b, i) => spec_map(i)?.into_iter().filter(|((z, _, _), _)| a.map_or(true, |m| *z >= m) && b.map_or(true, |m| *z <= m)).collect(),
		E::BBox(g, i) => {
			let bs = geo_boxes(g)?;
			spec_map(i)?.into_iter().filter(|((z, x, y), _)| bs[*z as usize].contains2(&TileCoord2::new(*x, *y))).collect()
		}
		E::Over(es) => { let mut m = HashMap::new(); for x in es { for (c, id) in spec_map(x)? { m.entry(c).or_insert(id); } } m }
		E::Conv(flip, swap, req, i) => {
			let mut m = HashMap::new();
			for ((z, x, y), id) in spec_map(i)? {
				let max = (1u32 << z) - 1;
				let (mut nx, mut ny) = (x, y);
				if *flip { ny = max - ny; }
				if *swap { std::mem::swap(&mut nx, &mut ny); }
				let keep = match req { None => true, Some(b) => b.iter().any(|bb| bb.level == z && bb.contains2(&TileCoord2::new(nx, ny))) };
				if keep { m.insert((z, nx, ny), id); }
			}
			m
		}
	})
}

// ---------------- queries ----------------
#[derive(Clone, Debug)]
pub enum Q { L(u8, u32, u32), S(TileBBox), V(u8) }
fn q_text(q: &Q) -> String {
	match q { Q::L(z, x, y) => format!("L {z} {x} {y}"), Q::S(b) => format!("S {}", fb(b)), Q::V(z) => format!("V {z}") }
}

pub struct Outcome { pub text: String, pub spec_fail: Option<String> }

pub fn run_query(rt: &tokio::runtime::Runtime, op: &dyn OperationTrait, spec: &HashMap<(u8, u32, u32), u64>, q: &Q) -> Outcome {
	match q {
		Q::L(z, x, y) => {
			let r = guarded(|| rt.block_on(async { op.get_tile_data(&TileCoord3 { x: *x, y: *y, z: *z }).await }));
			let exp = spec.get(&(*z, *x, *y)).copied();
			match r {
				Ok(Ok(Some(b))) => { let id = payload_id(&b, &op.get_parameters().tile_compression);
					Outcome { text: id.map_or("?".into(), |i| i.to_string()), spec_fail: if id == exp { None } else { Some(format!("lookup returned {id:?}, expected {exp:?}")) } } }
				Ok(Ok(None)) => Outcome { text: "-".into(), spec_fail: if exp.is_none() { None } else { Some(format!("lookup returned nothing, expected {exp:?}")) } },
				Ok(Err(e)) => Outcome { text: "err".into(), spec_fail: Some(format!("lookup failed: {e}")) },
				Err(m) => Outcome { text: "panic".into(), spec_fail: Some(format!("lookup panicked: {m}")) },
			}
		}
		Q::S(b) => {
			let bb = b.clone();
			let r = guarded(|| rt.block_on(async { op.get_tile_stream(bb).await.collect().await }));
			match r {
				Ok(v) => {
					let mut items: Vec<(u8, u32, u32, Option<u64>)> = v.iter().map(|(c, bl)| (c.z, c.x, c.y, payload_id(bl, &op.get_parameters().tile_compression))).collect();
					items.sort();
					let mut exp: Vec<(u8, u32, u32, Option<u64>)> = spec.iter().filter(|((z, x, y), _)| *z == b.level && b.contains2(&TileCoord2::new(*x, *y))).map(|((z, x, y), id)| (*z, *x, *y, Some(*id))).collect();
					exp.sort();
					let text = items.iter().map(|(z, x, y, id)| format!("{z}:{x}:{y}:{}", id.map_or("?".into(), |i| i.to_string()))).collect::<Vec<_>>().join(",");
					Outcome { text, spec_fail: if items == exp { None } else { Some(format!("stream delivered {} tiles, lookups inside the box give {}", items.len(), exp.len())) } }
				}
				Err(m) => Outcome { text: "panic".into(), spec_fail: Some(format!("stream panicked: {m}")) },
			}
		}
		Q::V(z) => {
			let b = op.get_parameters().bbox_pyramid.get_level_bbox(*z).clone();
			let ok = spec.iter().filter(|((zz, _, _), _)| zz == z).all(|((_, x, y), _)| b.contains2(&TileCoord2::new(*x, *y)));
			Outcome { text: if b.is_empty() { "empty".into() } else { fb(&b) }, spec_fail: if ok { None } else { Some(format!("coverage {} misses a tile the source returns", fb(&b))) } }
		}
	}
}

// ---------------- generators ----------------
fn gen_leaf(rng: &mut Rng, idbase: u64) -> E {
	let mut tiles: Vec<Tile> = Vec::new();
	let n = *rng.pick(&[0u64, 1, 2, 5, 12, 30]);
	let zlo = rng.range(0, 3) as u8; let zhi = rng.range(zlo as u64, ZMAX as u64) as u8;
	for i in 0..n {
		let z = rng.range(zlo as u64, zhi as u64) as u8;
		let m = (1u32 << z) - 1;
		let c = |rng: &mut Rng| -> u32 { match rng.below(4) { 0 => 0, 1 => m, _ => rng.below(m as u64 + 1) as u32 } };
		tiles.push(((z, c(rng), c(rng)), idbase + i));
	}
	// sometimes a dense block (exercises the 32-grid and index arithmetic)
	if rng.chance(1, 4) {
		let z = ZMAX; let x0 = rng.below(20) as u32; let y0 = rng.below(20) as u32;
		for dy in 0..rng.range(1, 6) as u32 { for dx in 0..rng.range(1, 6) as u32 { tiles.push(((z, x0 + dx, y0 + dy), idbase + 100 + (dy * 8 + dx) as u64)); } }
	}
	E::Leaf(tiles)
}
/// a completely filled rectangle at one level (dense, overlapping coverages for overlays)
fn gen_rect_leaf(rng: &mut Rng, idbase: u64, z: u8) -> E {
	let m = (1u32 << z) - 1;
	let (a, b, c, d) = (rng.below(m as u64 + 1) as u32, rng.below(m as u64 + 1) as u32, rng.below(m as u64 + 1) as u32, rng.below(m as u64 + 1) as u32);
	let (x0, y0, x1, y1) = if rng.chance(1, 2) { (0, 0, a.max(c), b.max(d)) } else { (a.min(c), b.min(d), a.max(c), b.max(d)) };
	let mut tiles = Vec::new();
	for y in y0..=y1 { for x in x0..=x1 { if !rng.chance(1, 40) { tiles.push(((z, x, y), idbase + (y * (m + 1) + x) as u64)); } } }
	E::Leaf(tiles)
}
fn dyadic(rng: &mut Rng, lo: f64, hi: f64) -> f64 {
	// multiples of 360/2^k (exactly representable); occasionally a non-lattice value
	let k = rng.range(0, 6);
	let step = 360.0 / (1u64 << k) as f64;
	let n = ((hi - lo) / step) as u64;
	let v = lo + step * rng.below(n + 1) as f64;
	if rng.chance(1, 3) { v + step / 3.0 } else { v }.clamp(lo, hi)
}
fn gen_geo(rng: &mut Rng) -> [f64; 4] {
	if rng.chance(1, 3) { // the bounds of a tile box, as as_geo_bbox prints them: every edge lies exactly on a tile edge
		let z = rng.range(1, ZMAX as u64 + 3) as u8; let m = (1u32 << z) - 1;
		let (a, b, c, d) = (rng.below(m as u64 + 1) as u32, rng.below(m as u64 + 1) as u32, rng.below(m as u64 + 1) as u32, rng.below(m as u64 + 1) as u32);
		let g = TileBBox::new(z, a.min(c), b.min(d), a.max(c), b.max(d)).unwrap().as_geo_bbox();
		return [g.0, g.1, g.2, g.3];
	}
	let (a, b) = (dyadic(rng, -180.0, 180.0), dyadic(rng, -180.0, 180.0));
	let (c, d) = (dyadic(rng, -85.0, 85.0), dyadic(rng, -85.0, 85.0));
	let mut g = [a.min(b), c.min(d), a.max(b), c.max(d)];
	// keep the box non-degenerate (degenerate/invalid arguments are C09's build-time stream below)
	if g[2] - g[0] < 1.0 { g[2] = (g[0] + 11.25).min(180.0); g[0] = g[2] - 11.25; }
	if g[3] - g[1] < 1.0 { g[3] = (g[1] + 7.0).min(85.0); g[1] = g[3] - 7.0; }
	g
}
fn gen_req(rng: &mut Rng) -> Vec<TileBBox> {
	let levels: Vec<u8> = (0..=ZMAX).filter(|_| rng.chance(3, 4)).collect();
	levels.into_iter().map(|z| {
		let m = (1u32 << z) - 1;
		let (a, b, c, d) = (rng.below(m as u64 + 1) as u32, rng.below(m as u64 + 1) as u32, rng.below(m as u64 + 1) as u32, rng.below(m as u64 + 1) as u32);
		TileBBox::new(z, a.min(c), b.min(d), a.max(c), b.max(d)).unwrap()
	}).collect()
}
pub fn gen_expr(rng: &mut Rng, depth: u32, idbase: &mut u64) -> E {
	if depth == 0 || rng.chance(1, 4) { *idbase += 2000;
		return if rng.chance(1, 3) { let z = rng.range(1, ZMAX as u64) as u8; gen_rect_leaf(rng, *idbase, z) } else { gen_leaf(rng, *idbase) }; }
	match rng.below(4) {
		0 => E::Zoom(if rng.chance(2, 3) { Some(rng.range(0, 7) as u8) } else { None }, if rng.chance(2, 3) { Some(rng.range(0, 7) as u8) } else { None }, Box::new(gen_expr(rng, depth - 1, idbase))),
		1 => E::BBox(gen_geo(rng), Box::new(gen_expr(rng, depth - 1, idbase))),
		2 => E::Over((0..rng.range(2, 4)).map(|_| gen_expr(rng, depth - 1, idbase)).collect()),
		_ => E::Conv(rng.chance(1, 2), rng.chance(1, 2), if rng.chance(1, 2) { Some(gen_req(rng)) } else { None }, Box::new(gen_expr(rng, depth - 1, idbase))),
	}
}

fn leaf_coords(e: &E, out: &mut Vec<(u8, u32, u32)>) {
	match e { E::Leaf(t) => out.extend(t.iter().map(|(c, _)| *c)), E::Zoom(_, _, i) | E::BBox(_, i) | E::Conv(_, _, _, i) => leaf_coords(i, out), E::Over(es) => es.iter().for_each(|x| leaf_coords(x, out)) }
}

fn gen_queries(rng: &mut Rng, spec: &HashMap<(u8, u32, u32), u64>, probes: &[(u8, u32, u32)], n: usize) -> Vec<Q> {
	let mut qs = Vec::new();
	// coordinates stored in some leaf are probed whether or not the expression keeps them (filters!)
	for c in probes.iter().take(12) { qs.push(Q::L(c.0, c.1, c.2)); if let Ok(b) = TileBBox::new(c.0, c.1, c.2, c.1, c.2) { qs.push(Q::S(b)); } }
	let keys: Vec<&(u8, u32, u32)> = spec.keys().collect();
	for z in 0..=ZMAX { qs.push(Q::V(z)); }
	for _ in 0..n {
		match rng.below(3) {
			0 => { // lookup: a stored coordinate, a neighbour, a random one, or one outside the level
				if !keys.is_empty() && rng.chance(1, 2) { let k = *rng.pick(&keys); qs.push(Q::L(k.0, k.1.saturating_add(rng.below(2) as u32), k.2)); }
				else { let z = rng.range(0, ZMAX as u64 + 1) as u8; let m = (1u32 << z) - 1;
					let f = |rng: &mut Rng| if rng.chance(1, 8) { m + 1 + rng.below(3) as u32 } else { rng.below(m as u64 + 1) as u32 };
					qs.push(Q::L(z, f(rng), f(rng))); }
			}
			_ => { // stream boxes: full level, random, empty encodings, beyond coverage
				let z = rng.range(0, ZMAX as u64) as u8; let m = (1u32 << z) - 1;
				let b = match rng.below(8) {
					0 => TileBBox::new_full(z).unwrap(),
					1 => TileBBox::new_empty(z).unwrap(),
					2 => { let mut b = TileBBox::new_full(z).unwrap(); b.set_empty(); b }
					_ => { let (a, b, c, d) = (rng.below(m as u64 + 1) as u32, rng.below(m as u64 + 1) as u32, rng.below(m as u64 + 1) as u32, rng.below(m as u64 + 1) as u32);
						TileBBox::new(z, a.min(c), b.min(d), a.max(c), b.max(d)).unwrap() }
				};
				qs.push(Q::S(b));
			}
		}
	}
	qs
}

pub struct SpecV { pub kind: String, pub expr: String, pub query: String, pub detail: String }

pub fn run_expr(rt: &tokio::runtime::Runtime, e: &E, qs: &[Q], out: &mut Out, specv: &mut Vec<SpecV>, stats: &mut BTreeMap<String, u64>) -> Result<()> {
	let toks = expr_tokens(e)?;
	let spec = spec_map(e)?;
	let op = match guarded(|| rt.block_on(build(e))) {
		Ok(Ok(op)) => op,
		Ok(Err(err)) => { specv.push(SpecV { kind: "build-error".into(), expr: toks, query: "".into(), detail: format!("{err:#}") }); return Ok(()); }
		Err(m) => { specv.push(SpecV { kind: "build-panic".into(), expr: toks, query: "".into(), detail: m }); return Ok(()); }
	};
	for chunk in qs.chunks(24) {
		let mut qt = Vec::new(); let mut rt_ = Vec::new();
		for q in chunk {
			let o = run_query(rt, op.as_ref(), &spec, q);
			*stats.entry(format!("q:{}", &q_text(q)[0..1])).or_insert(0) += 1;
			if o.text == "panic" || o.text == "err" { *stats.entry(format!("outcome:{}", o.text)).or_insert(0) += 1; }
			if let Some(d) = o.spec_fail {
				let kind = match q { Q::L(..) => "lookup", Q::S(..) => "stream", Q::V(..) => "coverage" };
				specv.push(SpecV { kind: kind.into(), expr: toks.clone(), query: q_text(q), detail: d });
			}
			qt.push(q_text(q)); rt_.push(o.text);
		}
		out.line(&format!("pipe {} ;; {} => {}", toks, qt.join(" ;; "), rt_.join(" ;; ")));
	}
	Ok(())
}

/// C09 "an invalid filter argument is reported as an error when the pipeline is built":
/// geographic boxes that GeoBBox::check rejects must give Err (never a panic); every valid box,
/// however small (degenerate points on and off tile edges), must build and pass the tiles whose
/// box contains the point.
fn build_args(rt: &tokio::runtime::Runtime, rng: &mut Rng, thorough: bool, specv: &mut Vec<SpecV>, stats: &mut BTreeMap<String, u64>) {
	let mut cases: Vec<([f64; 4], bool)> = vec![
		([0.0, 0.0, 0.0, 0.0], true), ([-90.0, 0.0, -90.0, 10.0], true), ([8.0, 51.0, 8.0, 51.0], true),
		([-180.0, -90.0, 180.0, 90.0], true), ([180.0, 85.0, 180.0, 85.0], true), ([-180.0, -85.0, -180.0, -85.0], true),
		([45.0, 0.0, 45.0, 0.0], true), ([0.0, 66.51326044311186, 0.0, 66.51326044311186], true),
		([10.0, 0.0, 5.0, 1.0], false), ([0.0, 10.0, 1.0, 5.0], false), ([-181.0, 0.0, 0.0, 1.0], false), ([0.0, 0.0, 181.0, 1.0], false),
		([0.0, -91.0, 1.0, 0.0], false), ([0.0, 0.0, 1.0, 91.0], false), ([f64::NAN, 0.0, 1.0, 1.0], false), ([0.0, 0.0, f64::NAN, 1.0], false),
		([0.0, f64::NAN, 1.0, 1.0], false), ([0.0, 0.0, 1.0, f64::INFINITY], false),
	];
	for _ in 0..(if thorough { 400 } else { 60 }) {
		let x = dyadic(rng, -180.0, 180.0); let y = dyadic(rng, -85.0, 85.0);
		cases.push(([x, y, x, y], true));
		let x2 = dyadic(rng, -180.0, 180.0);
		cases.push(([x.min(x2), y, x.max(x2), y], true));
	}
	for (g, valid) in cases {
		let txt = format!("from_debug format=pbf | filter_bbox bbox=[{},{},{},{}]", fmt_f(g[0]), fmt_f(g[1]), fmt_f(g[2]), fmt_f(g[3]));
		let r = guarded(|| rt.block_on(async { factory().operation_from_vpl(&txt).await }));
		*stats.entry("build_args".into()).or_insert(0) += 1;
		let fail = match (&r, valid) {
			(Err(m), _) => Some(format!("building the pipeline panicked: {m}")),
			(Ok(Err(e)), true) => Some(format!("a valid geographic box was rejected: {e:#}")),
			(Ok(Ok(_)), false) => Some("an invalid geographic box was accepted".to_string()),
			(Ok(Ok(op)), true) => {
				// the filter must keep a non-empty tile box at every level
				let p = &op.get_parameters().bbox_pyramid;
				(0..=20u8).find(|z| p.get_level_bbox(*z).is_empty()).map(|z| format!("valid box maps to an empty tile box at level {z}")).or_else(|| {
					// a box without extent in x that lies exactly on the edge between two tile columns keeps both columns: the guard
					// reaches into each of them (the longitude's tile coordinate is exact in f64 for these inputs)
					if g[0] != g[2] { return None; }
					(1..=20u8).find_map(|z| { let u = (g[0] / 360.0 + 0.5) * (1u64 << z) as f64; let k = u as u32;
						if u.fract() != 0.0 || k == 0 || u >= (1u64 << z) as f64 { return None; }
						let b = p.get_level_bbox(z);
						if b.x_min <= k - 1 && b.x_max >= k { None } else { Some(format!("longitude {} is the edge between tile columns {} and {} at level {z}; the filter keeps columns {}..={}", g[0], k - 1, k, b.x_min, b.x_max)) } })
				})
			}
			(Ok(Err(_)), false) => None,
		};
		if let Some(d) = fail { specv.push(SpecV { kind: "build-arg".into(), expr: txt, query: "".into(), detail: d }); }
	}
}
/// argument decoding against the Coq model (Model/VPLArgs.v): entries are integer literals and words, arrays of 0..8 entries,
/// parameters given twice, scalar parameters given as arrays
/// C18 ("missing or mistyped parameters are rejected"): the argument lines of filter_bbox / filter_zoom for the C18 check
pub fn arg_lines_into(ctx: &Ctx, col: &mut Collector) -> Result<()> {
	let rt = tokio::runtime::Builder::new_multi_thread().worker_threads(2).enable_all().build()?;
	let mut rng = Rng::new(ctx.seed ^ 0x18a);
	let mut specv: Vec<SpecV> = Vec::new(); let mut stats = BTreeMap::new();
	arg_lines(&rt, &mut rng, ctx.thorough, &mut col.out, &mut specv, &mut stats);
	for x in &specv { col.violation(&x.kind, &x.expr, &x.expr, &x.detail); }
	for (k, v) in stats { col.bump(&k, v); }
	Ok(())
}
fn arg_lines(rt: &tokio::runtime::Runtime, rng: &mut Rng, thorough: bool, out: &mut Out, specv: &mut Vec<SpecV>, stats: &mut BTreeMap<String, u64>) {
	// (unquoted values: the VPL grammar has no leading '+')
	let pool = ["0", "1", "-1", "5", "20", "45", "90", "91", "-90", "-91", "180", "181", "-180", "-181", "005", "north", "x", "1e", "--1", "7", "-", "255", "256", "31", "32", "33"];
	let show = |v: &Option<Vec<String>>| -> String { match v { None => "-".into(), Some(l) if l.is_empty() => "()".into(), Some(l) => l.join(",") } };
	let outcome = |txt: &str| -> (String, Option<(Option<u8>, Option<u8>, bool)>) {
		match guarded(|| rt.block_on(async { factory().operation_from_vpl(txt).await })) {
			Err(_) => ("panic".into(), None), Ok(Err(_)) => ("err".into(), None),
			Ok(Ok(op)) => { let p = &op.get_parameters().bbox_pyramid; ("ok".into(), Some((p.get_zoom_min(), p.get_zoom_max(), p.is_empty()))) }
		}
	};
	let mut fixed: Vec<Vec<&str>> = vec![vec!["0", "0", "20", "20"], vec!["0", "0", "20", "20", "40"], vec!["0", "0", "20", "20", "40", "50"], vec!["0", "0", "20", "20", "-180", "-85", "180", "85"], vec!["0", "0", "20"], vec![], vec!["0", "0", "20", "20", "north"], vec!["0", "0", "20", "north"], vec!["20", "0", "0", "20"], vec!["-180", "-90", "180", "90"], vec!["-181", "0", "0", "0"]];
	for _ in 0..(if thorough { 600 } else { 80 }) { let n = *rng.pick(&[0usize, 1, 2, 3, 4, 4, 4, 4, 4, 5, 6, 8]); fixed.push((0..n).map(|_| *rng.pick(&pool[..18])).collect()); }
	// mostly-valid stream: a valid box, then sometimes surplus entries, a dropped entry or one entry replaced
	let (lons, lats) = (["-180", "-91", "-90", "-1", "0", "005", "20", "45", "90", "91", "180"], ["-90", "-45", "-1", "0", "1", "20", "45", "90"]);
	for _ in 0..(if thorough { 900 } else { 120 }) {
		let (a, b) = (rng.below(11) as usize, rng.below(11) as usize); let (c, d) = (rng.below(8) as usize, rng.below(8) as usize);
		let mut l = vec![lons[a.min(b)], lats[c.min(d)], lons[a.max(b)], lats[c.max(d)]];
		match rng.below(8) { 0 => l.push(*rng.pick(&pool[..18])), 1 => { l.push("40"); l.push("50"); } 2 => { let k = rng.below(4) as usize; l.remove(k); } 3 => { let k = rng.below(4) as usize; l[k] = *rng.pick(&pool[..18]); } 4 => { l.push("north"); } _ => {} }
		fixed.push(l);
	}
	for (k, l) in fixed.iter().enumerate() {
		// one array, or the same entries split over two occurrences of the parameter
		let txt = if k % 4 == 3 && l.len() >= 2 { let cut = 1 + rng.below(l.len() as u64 - 1) as usize; format!("from_debug format=pbf | filter_bbox bbox=[{}] bbox=[{}]", l[..cut].join(","), l[cut..].join(",")) } else { format!("from_debug format=pbf | filter_bbox bbox=[{}]", l.join(",")) };
		let (o, _) = outcome(&txt);
		out.line(&format!("vplarg.bbox {} => {o}", show(&Some(l.iter().map(|s| s.to_string()).collect()))));
		// spec level, independent of the model: std's own number parser and the documented bounds
		let nums: Vec<Option<f64>> = l.iter().map(|e| e.parse::<f64>().ok()).collect();
		let valid = l.len() == 4 && nums.iter().all(|n| n.is_some()) && { let v: Vec<f64> = nums.iter().map(|n| n.unwrap()).collect(); v[0] >= -180.0 && v[1] >= -90.0 && v[2] <= 180.0 && v[3] <= 90.0 && v[0] <= v[2] && v[1] <= v[3] };
		if (o == "ok") != valid { specv.push(SpecV { kind: "build-arg".into(), expr: txt.clone(), query: "".into(), detail: format!("bbox argument with {} entries, valid = {valid}: building gives {o}", l.len()) }); }
		*stats.entry("vplarg".into()).or_insert(0) += 1;
	}
	{ let (o, _) = outcome("from_debug format=pbf | filter_bbox"); out.line(&format!("vplarg.bbox - => {o}")); }
	let zpool = ["0", "1", "5", "6", "005", "31", "32", "33", "40", "255", "256", "300", "-1", "-0", "x", "1.5", "1e1", ""];
	for i in 0..(if thorough { 900 } else { 160 }) {
		let mut param = |rng: &mut Rng| -> Option<Vec<String>> { match rng.below(8) { 0 => None, 1 => Some((0..rng.range(0, 4)).map(|_| rng.pick(&zpool[..17]).to_string()).collect()), _ => Some(vec![rng.pick(&zpool[..17]).to_string()]) } };
		let (a, b) = (param(rng), param(rng));
		let part = |name: &str, v: &Option<Vec<String>>, arr: bool| -> String { match v { None => String::new(), Some(l) if l.len() == 1 && !arr => format!(" {name}={}", l[0]), Some(l) => format!(" {name}=[{}]", l.join(",")) } };
		let txt = format!("from_debug format=pbf | filter_zoom{}{}", part("min", &a, i % 5 == 0), part("max", &b, i % 7 == 0));
		let (o, info) = outcome(&txt);
		let o = match info { Some((_, _, true)) => "ok:empty".to_string(), Some((Some(lo), Some(hi), false)) => format!("ok:{lo}-{hi}"), Some(_) => "ok:?".into(), None => o };
		out.line(&format!("vplarg.zoom {} {} => {o}", show(&a), show(&b)));
		let okp = |v: &Option<Vec<String>>| -> bool { match v { None => true, Some(l) => l.len() == 1 && l[0].parse::<u8>().is_ok() } };
		if o.starts_with("ok") != (okp(&a) && okp(&b)) { specv.push(SpecV { kind: "build-arg".into(), expr: txt.clone(), query: "".into(), detail: format!("zoom arguments valid = {}: building gives {o}", okp(&a) && okp(&b)) }); }
		*stats.entry("vplarg".into()).or_insert(0) += 1;
	}
}
fn fmt_f(v: f64) -> String { if v.is_nan() { "NaN".into() } else if v.is_infinite() { if v > 0.0 { "inf".into() } else { "-inf".into() } } else { format!("{v}") } }

// parse the model-side text back into an expression (for replay)
fn parse_expr(t: &mut std::collections::VecDeque<String>) -> E {
	let head = t.pop_front().unwrap();
	let num = |t: &mut std::collections::VecDeque<String>| -> u64 { t.pop_front().unwrap().parse().unwrap() };
	match head.as_str() {
		"leaf" => { let n = num(t); E::Leaf((0..n).map(|_| { let z = num(t) as u8; let x = num(t) as u32; let y = num(t) as u32; let id = num(t); ((z, x, y), id) }).collect()) }
		"zoom" => { let a = t.pop_front().unwrap(); let b = t.pop_front().unwrap();
			E::Zoom(a.parse().ok(), b.parse().ok(), Box::new(parse_expr(t))) }
		"over" => { let n = num(t); E::Over((0..n).map(|_| parse_expr(t)).collect()) }
		"conv" => { let f = num(t) == 1; let s = num(t) == 1; let r = t.pop_front().unwrap();
			let req = if r == "-" { None } else { let n: u64 = r.parse().unwrap(); Some((0..n).map(|_| crate::c15_bbox::pb(&t.pop_front().unwrap())).collect()) };
			E::Conv(f, s, req, Box::new(parse_expr(t))) }
		"geo" => { let g = [t.pop_front().unwrap().parse().unwrap(), t.pop_front().unwrap().parse().unwrap(), t.pop_front().unwrap().parse().unwrap(), t.pop_front().unwrap().parse().unwrap()];
			E::BBox(g, Box::new(parse_expr(t))) }
		x => panic!("cannot replay expression head {x} (bbox filters are replayed from their geo form)"),
	}
}

/// C08, the encoding side (Model/OverlayComp.v): overlays of 2..5 sources that store their tiles uncompressed, gzip'ed or
/// brotli'ed; the compression the overlay declares, and the tile it hands out for a coordinate that some, one or none of
/// the sources hold, decoded with that declared compression - through the lookup and through the stream.
fn overlay_comp_lines(rt: &tokio::runtime::Runtime, rng: &mut Rng, thorough: bool, col: &mut Collector, seed: u64) {
	let comps = [("U", TileCompression::Uncompressed), ("G", TileCompression::Gzip), ("B", TileCompression::Brotli)];
	for i in 0..(if thorough { 600 } else { 90 }) {
		let k = rng.range(2, 5) as usize;
		// mostly one or two distinct compressions (so that "all equal" is frequent), sometimes anything
		let base = rng.below(3) as usize; let other = rng.below(3) as usize;
		let cs: Vec<usize> = (0..k).map(|j| match i % 3 { 0 => base, 1 => if rng.chance(1, 3) || j == k - 1 && i % 2 == 1 { other } else { base }, _ => rng.below(3) as usize }).collect();
		let ts: Vec<Option<u64>> = (0..k).map(|j| if rng.chance(2, 5) { Some(70_000 + (i * 10 + j) as u64) } else { None }).collect();
		let mut names = Vec::new();
		for j in 0..k {
			let name = format!("oc{i}_{j}_{seed}"); let c = comps[cs[j]].1;
			let enc = |id: u64| versatiles_core::utils::compress(Blob::from(payload(id)), &c).unwrap().into_vec();
			let mut tiles = vec![((4u8, j as u32, 15u32), enc(60_000 + (i * 10 + j) as u64))];
			if let Some(id) = ts[j] { tiles.push(((2, 1, 1), enc(id))); }
			crate::memsrc::register_slow_open(&name, Box::new(MemSource::new(&name, tiles, TileFormat::BIN, c).with_yields(j % 3)), [1usize, 0, 2][j % 3]);
			names.push(name);
		}
		let vpl = format!("from_overlayed [ {} ]", names.iter().map(|n| format!("from_container filename={n}")).collect::<Vec<_>>().join(", "));
		let toks = format!("ovl {k} {}", (0..k).map(|j| format!("{} {}", comps[cs[j]].0, ts[j].map_or("-".into(), |v| v.to_string()))).collect::<Vec<_>>().join(" "));
		col.spec_cases += 1;
		let op = match guarded(|| rt.block_on(factory().operation_from_vpl(&vpl))) { Ok(Ok(o)) => o, _ => { col.violation("overlay-build", &toks, &toks, "overlay of valid sources could not be built"); continue; } };
		let declared = op.get_parameters().tile_compression;
		let dname = comps.iter().find(|c| c.1 == declared).map_or("?", |c| c.0);
		let show = |b: Option<&Blob>| match b { None => "-".to_string(), Some(b) => payload_id(b, &declared).map_or("?".into(), |v| v.to_string()) };
		let l = match guarded(|| rt.block_on(op.get_tile_data(&TileCoord3 { x: 1, y: 1, z: 2 }))) { Ok(Ok(b)) => show(b.as_ref()), Ok(Err(_)) => "err".into(), Err(_) => "panic".into() };
		let s = match guarded(|| rt.block_on(async { op.get_tile_stream(TileBBox::new(2, 0, 0, 3, 3).unwrap()).await.collect().await })) {
			Ok(v) => { let at: Vec<&(TileCoord3, Blob)> = v.iter().filter(|(c, _)| c.x == 1 && c.y == 1).collect(); if at.len() > 1 { "twice".into() } else { show(at.first().map(|t| &t.1)) } }
			Err(_) => "panic".into() };
		col.out.line(&format!("{toks} => {dname} L={l} S={s}"));
		// spec: the first listed source that has the tile
		let exp = ts.iter().flatten().next().map_or("-".to_string(), |v| v.to_string());
		if l != exp || s != exp { col.violation("overlay-encoding", &toks, &toks, &format!("sources (compression, tile at 2/1/1) {toks}: the overlay declares {dname}; decoded with it the lookup gives {l}, the stream gives {s}; the first source that has the tile stores payload {exp}")); }
		// every private tile too (level 4), through the stream
		if let Ok(v) = guarded(|| rt.block_on(async { op.get_tile_stream(TileBBox::new(4, 0, 15, 15, 15).unwrap()).await.collect().await })) {
			let v: Vec<(TileCoord3, Blob)> = v;
			for j in 0..k { let want = 60_000 + (i * 10 + j) as u64; let got = v.iter().find(|(c, _)| c.x == j as u32).and_then(|(_, b)| payload_id(b, &declared));
				if got != Some(want) { col.violation("overlay-encoding", &toks, &toks, &format!("tile 4/{j}/15 of source {j} ({}) does not decode with the declared compression {dname} when streamed", comps[cs[j]].0)); break; } }
		}
	}
}

pub fn run(ctx: &Ctx, focus: &str) -> Result<()> {
	let mut col = Collector::new(&ctx.out)?;
	run_into(ctx, focus, &mut col)?;
	col.finish()
}

pub fn run_into(ctx: &Ctx, focus: &str, col: &mut Collector) -> Result<()> {
	let rt = tokio::runtime::Builder::new_multi_thread().worker_threads(4).enable_all().build()?;
	let mut specv: Vec<SpecV> = Vec::new();
	let mut stats = BTreeMap::new();
	let mut rng = Rng::new(ctx.seed ^ focus.bytes().fold(0u64, |a, b| a * 131 + b as u64));
	let mut idbase = 0u64;
	let n = if ctx.thorough { 1500 } else { 150 };
	let nq = if ctx.thorough { 96 } else { 48 };
	for i in 0..n {
		// focus biases the top-level operator so each property exercises its own operator most
		let depth = 1 + (i % 3) as u32;
		let inner = gen_expr(&mut rng, depth, &mut idbase);
		// C02 / C03 are about every operator: they rotate through the shapes of the operator-specific properties
		let shape = match focus { "c02" | "c03" | "pipe" => ["plain", "c08", "c06", "c09", "plain", "c08"][i % 6], f => f };
		let i = if shape != focus { i / 6 * 2 + (i % 6 == 5) as usize } else { i };
		let e = match shape {
			"c08" if i % 2 == 0 => { // 3-4 dense rectangles at one level: later sources fill non-rectangular holes
				let z = rng.range(2, ZMAX as u64) as u8;
				E::Over((0..rng.range(2, 4)).map(|_| { idbase += 2000; gen_rect_leaf(&mut rng, idbase, z) }).collect()) }
			"c08" => E::Over((0..rng.range(2, 4)).map(|k| if k == 0 { inner.clone() } else { gen_expr(&mut rng, depth - 1, &mut idbase) }).collect()),
			"c09" if i % 5 == 4 => { // deep levels and zoom bounds at / beyond the last level (no geo boxes involved)
				let zs = [0u8, 1, 29, 30, 31];
				let tiles: Vec<Tile> = (0..rng.range(2, 8)).map(|k| { let z = *rng.pick(&zs); let m = ((1u64 << z) - 1) as u32; ((z, *rng.pick(&[0, m, m / 2]), *rng.pick(&[0, m, m / 3])), 900_000 + i as u64 * 10 + k) }).collect();
				let bounds = [0u8, 1, 2, 29, 30, 31, 32, 33, 64, 200, 255];
				let mut e = E::Zoom(Some(*rng.pick(&bounds)).filter(|_| rng.chance(4, 5)), Some(*rng.pick(&bounds)).filter(|_| rng.chance(3, 5)), Box::new(E::Leaf(tiles)));
				if rng.chance(1, 2) { e = E::Zoom(Some(*rng.pick(&bounds)).filter(|_| rng.chance(4, 5)), None, Box::new(e)); }
				e }
			"c09" if i % 5 == 3 => { // geographic boxes that span (almost) the whole Mercator square, tiles in the polar rows of deep levels
				let zs = [13u8, 14, 15, 16, 17, 20, 24];
				let tiles: Vec<Tile> = (0..rng.range(3, 9)).map(|k| { let z = *rng.pick(&zs); let m = ((1u64 << z) - 1) as u32;
					((z, *rng.pick(&[0, 1, m, m / 2, m - 1]), *rng.pick(&[0, 1, 2, m, m - 1, m - 2, m / 2])), 800_000 + i as u64 * 10 + k) }).collect();
				let lat = *rng.pick(&[85.05, 85.051, 85.0511, 85.05112, 85.0, 84.9, 85.0511287798]);
				let lat2 = if rng.chance(1, 2) { lat } else { *rng.pick(&[85.05, 85.0511, 80.0]) };
				let lon = *rng.pick(&[180.0, 179.999, 179.0]);
				E::BBox([-lon, -lat2, if rng.chance(1, 2) { lon } else { 180.0 }, lat], Box::new(E::Leaf(tiles))) }
			"c09" => if rng.chance(1, 2) { E::Zoom(Some(rng.range(0, 7) as u8).filter(|_| rng.chance(3, 4)), Some(rng.range(0, 7) as u8).filter(|_| rng.chance(3, 4)), Box::new(inner)) } else { E::BBox(gen_geo(&mut rng), Box::new(inner)) },
			"c06" => E::Conv(rng.chance(2, 3), rng.chance(2, 3), if rng.chance(1, 2) { Some(gen_req(&mut rng)) } else { None }, Box::new(inner)),
			_ => inner,
		};
		let spec = spec_map(&e)?;
		let mut probes = Vec::new(); leaf_coords(&e, &mut probes);
		let qs = gen_queries(&mut rng, &spec, &probes, nq);
		run_expr(&rt, &e, &qs, &mut col.out, &mut specv, &mut stats)?;
		*stats.entry("expressions".into()).or_insert(0) += 1;
		*stats.entry(format!("spec_tiles_{}", match spec.len() { 0 => "0", 1..=9 => "1-9", 10..=99 => "10-99", _ => "100+" })).or_insert(0) += 1;
	}
	if focus == "c08" || focus == "c02" || focus == "pipe" { overlay_comp_lines(&rt, &mut rng, ctx.thorough, col, ctx.seed); }
	if focus == "c09" || focus == "c06" || focus == "pipe" { crate::c15_bbox::geo_axis_lines(&mut col.out, &mut rng); }
	if focus == "c09" || focus == "pipe" {
		build_args(&rt, &mut rng, ctx.thorough, &mut specv, &mut stats);
		arg_lines(&rt, &mut rng, ctx.thorough, &mut col.out, &mut specv, &mut stats);
	}
	for x in &specv {
		col.violation(&x.kind, &x.expr, &format!("pipe {} ;; {}", x.expr, x.query), &format!("{} | query {}", x.detail, x.query));
	}
	for (input, detail) in GEO_MISMATCH.lock().unwrap().drain(..) { col.violation("geo-box", &input, &input, &detail); }
	let nqueries: u64 = stats.iter().filter(|(k, _)| k.starts_with("q:")).map(|(_, v)| *v).sum();
	col.spec_cases += nqueries;
	for (k, v) in stats { col.bump(&k, v); }
	let _ = parse_expr;
	Ok(())
}
