//! C20: LimitedCache<u64,u64> — algorithm-level lines for the Coq model and spec-level checks.
use crate::util::*;
use crate::Ctx;
use anyhow::Result;
use std::collections::HashSet;
use versatiles_core::types::LimitedCache;

#[derive(Clone, Debug, PartialEq)]
pub enum Op {
	Get(u64),
	Add(u64, u64),
	Gos(u64, Option<u64>),
}

pub fn fmt_ops(ops: &[Op]) -> String {
	ops.iter()
		.map(|o| match o {
			Op::Get(k) => format!("g{k}"),
			Op::Add(k, v) => format!("a{k}:{v}"),
			Op::Gos(k, Some(v)) => format!("s{k}:{v}"),
			Op::Gos(k, None) => format!("s{k}:E"),
		})
		.collect::<Vec<_>>()
		.join(",")
}

pub fn parse_ops(s: &str) -> Vec<Op> {
	s.split(',')
		.filter(|t| !t.is_empty())
		.map(|t| {
			let (c, rest) = t.split_at(1);
			match c {
				"g" => Op::Get(rest.parse().unwrap()),
				"a" => {
					let (k, v) = rest.split_once(':').unwrap();
					Op::Add(k.parse().unwrap(), v.parse().unwrap())
				}
				_ => {
					let (k, v) = rest.split_once(':').unwrap();
					Op::Gos(k.parse().unwrap(), if v == "E" { None } else { Some(v.parse().unwrap()) })
				}
			}
		})
		.collect()
}

fn new_cache(cap: u64) -> LimitedCache<u64, u64> {
	LimitedCache::with_maximum_size((cap as usize) * 16)
}

fn dbg_fields(c: &LimitedCache<u64, u64>) -> (u64, u64, u64) {
	// "LimitedCache { length: 0, max_length: 5, last_index: 0 }"
	let s = format!("{c:?}");
	let num = |key: &str| -> u64 {
		let i = s.find(key).unwrap() + key.len();
		s[i..].trim_start_matches([':', ' ']).chars().take_while(|c| c.is_ascii_digit()).collect::<String>().parse().unwrap()
	};
	(num("length"), num("max_length"), num("last_index"))
}

/// apply one op; returns (result, loader_called)
fn apply(c: &mut LimitedCache<u64, u64>, o: &Op) -> (Option<u64>, bool) {
	match o {
		Op::Get(k) => (c.get(k), false),
		Op::Add(k, v) => (Some(c.add(*k, *v)), false),
		Op::Gos(k, ld) => {
			let mut called = false;
			let r = c.get_or_set(k, || {
				called = true;
				match ld {
					Some(v) => Ok(*v),
					None => Err(anyhow::anyhow!("loader failed")),
				}
			});
			(r.ok(), called)
		}
	}
}

pub struct Violation {
	pub kind: &'static str,
	pub cap: u64,
	pub ops: Vec<Op>,
	pub detail: String,
}

/// Runs one history on the implementation: returns the algorithm-level line and spec violations.
pub fn run_history(cap: u64, ops: &[Op], probe_recent: bool, viol: &mut Vec<Violation>) -> String {
	let mut c = new_cache(cap);
	let mut results = Vec::new();
	let mut supplied: HashSet<(u64, u64)> = HashSet::new();
	let mut present: HashSet<u64> = HashSet::new(); // keys known present from impl answers
	for (i, o) in ops.iter().enumerate() {
		// was the key present before? (probing with get would refresh the stamp, so replay a copy)
		let (r, called) = apply(&mut c, o);
		let (len, maxlen, _) = dbg_fields(&c);
		let key = match o { Op::Get(k) | Op::Add(k, _) | Op::Gos(k, _) => *k };
		match o {
			Op::Add(k, v) => { supplied.insert((*k, *v)); }
			Op::Gos(k, Some(v)) if called => { supplied.insert((*k, *v)); }
			_ => {}
		}
		if maxlen != cap {
			viol.push(Violation { kind: "capacity-derivation", cap, ops: ops[..=i].to_vec(), detail: format!("max_length {maxlen} != {cap}") });
		}
		if len > cap {
			viol.push(Violation { kind: "capacity", cap, ops: ops[..=i].to_vec(), detail: format!("length {len} > capacity {cap}") });
		}
		if let Some(v) = r {
			if !supplied.contains(&(key, v)) {
				viol.push(Violation { kind: "provenance", cap, ops: ops[..=i].to_vec(), detail: format!("key {key} returned {v} never stored under it") });
			}
		}
		if let Op::Gos(_, ld) = o {
			if called {
				// miss: must return exactly what the loader yields
				if r != *ld {
					viol.push(Violation { kind: "get_or_set-miss", cap, ops: ops[..=i].to_vec(), detail: format!("loader gave {ld:?}, call returned {r:?}") });
				}
			} else if r.is_none() {
				viol.push(Violation { kind: "get_or_set-hit", cap, ops: ops[..=i].to_vec(), detail: "no loader call and no value".into() });
			}
		}
		let _ = &mut present;
		// just-used survives the next eviction: k was hit or inserted by this op
		let used = match o {
			Op::Get(_) => r.is_some(),
			Op::Add(k, v) => r == Some(*v) && { let _ = k; true },
			Op::Gos(_, _) => r.is_some(),
		};
		if probe_recent && used && cap >= 2 && len >= cap {
			// replay the prefix on a fresh cache, then force one eviction with a fresh key
			let mut c2 = new_cache(cap);
			for o2 in &ops[..=i] {
				apply(&mut c2, o2);
			}
			// an `add` of an already present key does not refresh the stamp (or_insert): only a
			// genuinely inserting add counts as "use"; detect by last_index/len bookkeeping:
			let inserting_or_hit = match o {
				Op::Add(k, _) => {
					// present before? replay prefix without this op and look
					let mut c3 = new_cache(cap);
					for o3 in &ops[..i] { apply(&mut c3, o3); }
					let before = dbg_fields(&c3).0;
					let had = c3.get(k).is_some();
					let _ = before;
					!had
				}
				_ => true,
			};
			if inserting_or_hit {
				c2.add(u64::MAX, 0);
				if c2.get(&key).is_none() {
					viol.push(Violation { kind: "recent-evicted", cap, ops: ops[..=i].to_vec(), detail: format!("key {key} was just used, then add of a fresh key evicted it") });
				}
			}
		}
		results.push(match r { Some(v) => v.to_string(), None => "-".into() });
	}
	let (len, _, last) = dbg_fields(&c);
	// capacity as a caller sees it (no hooks): after the history, at most `cap` of the keys ever used can still be answered,
	// and every answer is a value that was stored under that key
	{
		let mut keys: Vec<u64> = ops.iter().map(|o| match o { Op::Get(k) | Op::Add(k, _) | Op::Gos(k, _) => *k }).collect(); keys.sort(); keys.dedup();
		// most recently used key first: a lookup shortcut for repeated keys must not keep an evicted entry alive
		if let Some(lastk) = ops.iter().rev().find_map(|o| match o { Op::Get(k) => Some(*k), _ => None }) { keys.retain(|k| *k != lastk); keys.insert(0, lastk); }
		let mut hits = 0u64;
		for k in &keys { if let Some(v) = c.get(k) { hits += 1; if !supplied.contains(&(*k, v)) { viol.push(Violation { kind: "provenance", cap, ops: ops.to_vec(), detail: format!("after the history, key {k} answers {v}, never stored under it") }); } } }
		if hits > cap { viol.push(Violation { kind: "capacity-observable", cap, ops: ops.to_vec(), detail: format!("after the history {hits} different keys are still answered by get, capacity is {cap}") }); }
	}
	format!("cache {cap} {} => {} len={len} last={last}", fmt_ops(ops), results.join(","))
}

fn gen_history(rng: &mut Rng, nkeys: u64, len: usize) -> Vec<Op> {
	let mut ops = Vec::with_capacity(len);
	for i in 0..len {
		let k = rng.below(nkeys);
		let v = (i as u64 + 1) * 1000 + k;
		ops.push(match rng.below(10) {
			0..=3 => Op::Get(k),
			4..=6 => Op::Add(k, v),
			7..=8 => Op::Gos(k, Some(v)),
			_ => Op::Gos(k, None),
		});
	}
	ops
}

pub fn run(ctx: &Ctx) -> Result<()> {
	let mut out = Out::create(&ctx.out, "cases.txt")?;
	let mut viol: Vec<Violation> = Vec::new();
	let mut stats = std::collections::BTreeMap::<String, u64>::new();
	let mut bump = |k: &str, n: u64| *stats.entry(k.to_string()).or_insert(0) += n;

	if let Some(path) = &ctx.replay {
		// replay file: lines "cap ops"
		for l in std::fs::read_to_string(path)?.lines() {
			let l = l.trim();
			if l.is_empty() || l.starts_with('#') { continue; }
			let l = l.strip_prefix("cache ").unwrap_or(l);
			let l = l.split(" => ").next().unwrap().trim();
			let (cap, ops) = l.split_once(' ').unwrap_or((l, ""));
			let line = run_history(cap.parse()?, &parse_ops(ops), true, &mut viol);
			out.line(&line);
		}
	} else {
		// 1. exhaustive small scope
		let (nkeys, maxcap, maxlen) = if ctx.thorough { (3u64, 4u64, 5usize) } else { (2, 3, 5) };
		let mut alphabet = Vec::new();
		for k in 0..nkeys {
			alphabet.push(Op::Get(k));
			alphabet.push(Op::Add(k, 0));
			alphabet.push(Op::Gos(k, Some(0)));
			alphabet.push(Op::Gos(k, None));
		}
		for cap in 1..=maxcap {
			for len in 0..=maxlen {
				let total = (alphabet.len() as u64).pow(len as u32);
				for code in 0..total {
					let mut c = code;
					let mut ops = Vec::with_capacity(len);
					for i in 0..len {
						let mut o = alphabet[(c % alphabet.len() as u64) as usize].clone();
						c /= alphabet.len() as u64;
						let val = (i as u64 + 1) * 10;
						match &mut o { Op::Add(k, v) => *v = val + *k, Op::Gos(k, Some(v)) => *v = val + *k, _ => {} }
						ops.push(o);
					}
					out.line(&run_history(cap, &ops, len == maxlen, &mut viol));
					bump("exhaustive", 1);
				}
			}
		}
		// 2. random long histories
		let mut rng = Rng::new(ctx.seed);
		let n = if ctx.thorough { 6000 } else { 400 };
		for i in 0..n {
			let cap = if i % 3 == 0 { rng.range(1, 4) } else { rng.range(1, 64) };
			let nkeys = rng.range(1, 2 * cap + 3);
			let len = if ctx.thorough { rng.range(1, 1000) } else { rng.range(1, 300) } as usize;
			let ops = gen_history(&mut rng, nkeys, len);
			out.line(&run_history(cap, &ops, len <= 120, &mut viol));
			bump("random", 1);
			bump("random_ops", len as u64);
		}
	}
	let lines = out.lines;
	out.finish();
	let mut v = Out::create(&ctx.out, "spec_violations.jsonl")?;
	for x in &viol {
		v.line(&format!("{{\"kind\":{},\"cap\":{},\"ops\":{},\"replay\":{},\"detail\":{}}}", jstr(x.kind), x.cap, jstr(&fmt_ops(&x.ops)),
			jstr(&format!("cache {} {}", x.cap, fmt_ops(&x.ops))), jstr(&x.detail)));
	}
	v.finish();
	let mut s = Out::create(&ctx.out, "stats.json")?;
	s.line(&format!("{{\"lines\":{lines},\"spec_violations\":{},\"groups\":{{{}}}}}", viol.len(),
		stats.iter().map(|(k, v)| format!("{}:{}", jstr(k), v)).collect::<Vec<_>>().join(",")));
	s.finish();
	Ok(())
}
