use std::fs::File;
use std::io::{BufWriter, Write};
use std::path::Path;

/// splitmix64: the one PRNG every random choice derives from.
#[derive(Clone)]
pub struct Rng(pub u64);
impl Rng {
	pub fn new(seed: u64) -> Self { Rng(seed.wrapping_mul(0x9E3779B97F4A7C15).wrapping_add(0x1234567)) }
	pub fn next(&mut self) -> u64 {
		self.0 = self.0.wrapping_add(0x9E3779B97F4A7C15);
		let mut z = self.0;
		z = (z ^ (z >> 30)).wrapping_mul(0xBF58476D1CE4E5B9);
		z = (z ^ (z >> 27)).wrapping_mul(0x94D049BB133111EB);
		z ^ (z >> 31)
	}
	pub fn below(&mut self, n: u64) -> u64 { if n == 0 { 0 } else { self.next() % n } }
	pub fn range(&mut self, lo: u64, hi: u64) -> u64 { lo + self.below(hi - lo + 1) }
	pub fn chance(&mut self, num: u64, den: u64) -> bool { self.below(den) < num }
	pub fn pick<'a, T>(&mut self, v: &'a [T]) -> &'a T { &v[self.below(v.len() as u64) as usize] }
	pub fn bytes(&mut self, n: usize) -> Vec<u8> { (0..n).map(|_| self.next() as u8).collect() }
}

pub struct Out {
	w: BufWriter<File>,
	pub lines: u64,
	pub bytes: u64,
}
impl Out {
	pub fn create(dir: &Path, name: &str) -> anyhow::Result<Out> {
		Ok(Out { w: BufWriter::new(File::create(dir.join(name))?), lines: 0, bytes: 0 })
	}
	/// one line; a single line is cut at 4 MB and a file at 3 GB (a runaway implementation must not fill the disk -
	/// a cut line or file differs from the model's output and is reported as such)
	pub fn line(&mut self, s: &str) {
		if self.bytes > 3_000_000_000 { return; }
		let cut = if s.len() > 4_000_000 { let mut k = 4_000_000; while !s.is_char_boundary(k) { k -= 1; } k } else { s.len() };
		self.w.write_all(&s.as_bytes()[..cut]).unwrap();
		if cut < s.len() { self.w.write_all(format!(" ...<cut after 4000000 of {} bytes>", s.len()).as_bytes()).unwrap(); }
		self.w.write_all(b"\n").unwrap();
		self.lines += 1; self.bytes += cut as u64 + 1;
	}
	pub fn finish(mut self) { self.w.flush().unwrap(); }
}

/// minimal JSON string escaper for the jsonl side files
pub fn jstr(s: &str) -> String {
	let mut o = String::from("\"");
	for c in s.chars() {
		match c {
			'"' => o.push_str("\\\""),
			'\\' => o.push_str("\\\\"),
			'\n' => o.push_str("\\n"),
			'\r' => o.push_str("\\r"),
			'\t' => o.push_str("\\t"),
			c if (c as u32) < 0x20 => o.push_str(&format!("\\u{:04x}", c as u32)),
			c => o.push(c),
		}
	}
	o.push('"');
	o
}

pub fn hex(b: &[u8]) -> String { b.iter().map(|x| format!("{x:02x}")).collect() }
pub fn unhex(s: &str) -> Vec<u8> {
	(0..s.len() / 2).map(|i| u8::from_str_radix(&s[2 * i..2 * i + 2], 16).unwrap()).collect()
}

pub static LAST_PANIC_LOC: std::sync::Mutex<String> = std::sync::Mutex::new(String::new());

/// run a closure, mapping a panic to Err(message + source location of the panic)
pub fn guarded<T>(f: impl FnOnce() -> T) -> Result<T, String> {
	match std::panic::catch_unwind(std::panic::AssertUnwindSafe(f)) {
		Ok(v) => Ok(v),
		Err(e) => {
			let msg = if let Some(s) = e.downcast_ref::<String>() { s.clone() }
				else if let Some(s) = e.downcast_ref::<&str>() { s.to_string() } else { "panic".to_string() };
			let loc = LAST_PANIC_LOC.lock().map(|g| g.clone()).unwrap_or_default();
			Err(if loc.is_empty() { msg } else { format!("{msg} [at {loc}]") })
		}
	}
}

pub fn is_overflow(msg: &str) -> bool { msg.contains("overflow") }

/// shared sink for harness parts that are combined into one check (cases + spec violations + stats)
pub struct Collector {
	pub out: Out,
	pub viol: Vec<String>,          // JSON objects, one per violation
	pub stats: std::collections::BTreeMap<String, u64>,
	pub spec_cases: u64,
	dir: std::path::PathBuf,
}
impl Collector {
	pub fn new(dir: &Path) -> anyhow::Result<Collector> {
		Ok(Collector { out: Out::create(dir, "cases.txt")?, viol: Vec::new(), stats: Default::default(), spec_cases: 0, dir: dir.to_path_buf() })
	}
	pub fn violation(&mut self, kind: &str, input: &str, replay: &str, detail: &str) {
		self.viol.push(format!("{{\"kind\":{},\"input\":{},\"replay\":{},\"detail\":{}}}", jstr(kind), jstr(input), jstr(replay), jstr(detail)));
	}
	pub fn bump(&mut self, k: &str, n: u64) { *self.stats.entry(k.to_string()).or_insert(0) += n; }
	pub fn finish(self) -> anyhow::Result<()> {
		let lines = self.out.lines;
		self.out.finish();
		let mut v = Out::create(&self.dir, "spec_violations.jsonl")?;
		for x in &self.viol { v.line(x); }
		v.finish();
		let mut s = Out::create(&self.dir, "stats.json")?;
		s.line(&format!("{{\"lines\":{lines},\"spec_cases\":{},\"spec_violations\":{},\"groups\":{{{}}}}}", self.spec_cases, self.viol.len(),
			self.stats.iter().map(|(k, v)| format!("{}:{}", jstr(k), v)).collect::<Vec<_>>().join(",")));
		s.finish();
		Ok(())
	}
}
