//! Correspondence for the member-name model (coq/Model/Naming.v): a tar archive with ONE member of
//! the given name is opened with the real reader; the tile it yields (or none) is compared with
//! parse_member.
use crate::util::*;
use versatiles_container::get_reader;
use versatiles_core::types::*;

const EXTS: [&str; 10] = [".avif", ".bin", ".geojson", ".jpg", ".json", ".pbf", ".png", ".svg", ".topojson", ".webp"];

fn fmt_no(f: TileFormat) -> usize { EXTS.iter().position(|e| *e == f.extension()).unwrap_or(99) }

pub fn eval(rt: &tokio::runtime::Runtime, dir: &std::path::Path, name: &str) -> String {
	let p = dir.join("one.tar");
	{ let mut b = tar::Builder::new(Vec::new()); let mut h = tar::Header::new_gnu(); let d = b"payload"; h.set_size(d.len() as u64); h.set_mode(0o644);
		if let Some(g) = h.as_gnu_mut() { let n = name.len().min(99); g.name[..n].copy_from_slice(&name.as_bytes()[..n]); } h.set_cksum();
		if b.append(&h, &d[..]).is_err() { return "other".into(); }
		std::fs::write(&p, b.into_inner().unwrap()).unwrap(); }
	match guarded(|| rt.block_on(get_reader(p.to_str().unwrap()))) {
		Err(_) => "panic".into(),
		Ok(Err(_)) => "other".into(),
		Ok(Ok(r)) => { let pr = r.get_parameters(); match pr.bbox_pyramid.iter_levels().next() { Some(b) => format!("tile {} {} {} {} {}", b.level, b.x_min, b.y_min, fmt_no(pr.tile_format), match pr.tile_compression { TileCompression::Uncompressed => 0, TileCompression::Gzip => 1, TileCompression::Brotli => 2 }), None => "other".into() } }
	}
}

pub fn lines(col: &mut Collector, rng: &mut Rng, dir: &std::path::Path, n: usize) {
	let rt = tokio::runtime::Builder::new_current_thread().enable_all().build().unwrap();
	let mut names: Vec<String> = vec!["1/2/3.png".into(), "./1/2/3.png".into(), "01/002/0003.pbf.gz".into(), "+1/+2/+3.png".into(), "1/2/3.PNG".into(), "1/2/3.jpeg".into(), "1/2/3.png.br".into(), "1/2/3.gz".into(), "1/2/3".into(), "1/2/.png".into(),
		"256/0/0.png".into(), "255/4294967295/4294967295.webp".into(), "0/4294967296/0.png".into(), "1/2/3.tar.gz".into(), "1/2/3.png.gz.br".into(), "a/2/3.png".into(), "1/2".into(), "1/2/3/4.png".into(), "1//3.png".into(), ".//1/2/3.png".into(), "1/2/3..png".into(), "1/2/-3.png".into()];
	for _ in 0..n {
		let z = *rng.pick(&[0u64, 1, 9, 31, 255, 256, 300]); let x = *rng.pick(&[0u64, 7, 600, 4294967295, 4294967296]); let y = rng.below(5000);
		let mut s = format!("{}{z}/{x}/{y}{}{}", if rng.chance(1, 3) { "./" } else { "" }, rng.pick(&EXTS), rng.pick(&["", ".gz", ".br"]));
		if rng.chance(1, 3) { let mut cs: Vec<char> = s.chars().collect(); let k = rng.below(cs.len() as u64 + 1) as usize;
			match rng.below(4) { 0 => cs.insert(k, *rng.pick(&['.', '/', '0', '+', 'x', 'G'])), 1 => { if k < cs.len() { cs.remove(k); } } 2 => { if k < cs.len() { cs[k] = cs[k].to_ascii_uppercase(); } } _ => cs.truncate(k) } s = cs.into_iter().collect(); }
		if !s.is_empty() && s.len() < 90 && !s.starts_with('/') { names.push(s); }
	}
	for name in names {
		// names the tar crate rewrites or refuses are outside the model (absolute, empty, trailing slash = directory)
		if name.is_empty() || name.ends_with('/') || name.contains("//") || name.contains("/./") || name == "." { continue; }
		let r = eval(&rt, dir, &name);
		col.out.line(&format!("name {} => {}", name.chars().map(|c| (c as u32).to_string()).collect::<Vec<_>>().join(","), r));
	}
}
