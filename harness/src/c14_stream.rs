//! C14: TileStream parallel operators under controlled completion orders.
//! Lines: `acc <n> <len> <observed output order as input indices> => 1` (the extracted Coq
//! `accepts` must agree) and `chunks <k> <len> => <sizes>`; spec-level: every output is paired with
//! the result of its own input, nothing lost or duplicated.
use crate::util::*;
use crate::Ctx;
use anyhow::Result;
use std::collections::BTreeMap;
use std::time::Duration;
use versatiles_core::types::{Blob, TileCoord3, TileStream};

fn coord_of(i: usize) -> TileCoord3 { TileCoord3 { x: (i % 1024) as u32, y: (i / 1024) as u32, z: 12 } }
fn index_of(c: &TileCoord3) -> usize { c.y as usize * 1024 + c.x as usize }
/// blob = index (8 bytes) + delay in microseconds (4 bytes)
fn blob_of(i: usize, delay_us: u32) -> Blob { let mut v = (i as u64).to_le_bytes().to_vec(); v.extend_from_slice(&delay_us.to_le_bytes()); Blob::from(v) }
fn parse_blob(b: &Blob) -> (usize, u32) { let s = b.as_slice(); (u64::from_le_bytes(s[0..8].try_into().unwrap()) as usize, u32::from_le_bytes(s[8..12].try_into().unwrap())) }
/// the transformation: sleeps as instructed, returns "R" + index
fn work(b: Blob) -> Blob { let (i, d) = parse_blob(&b); if d > 0 { std::thread::sleep(Duration::from_micros(d as u64)); } let mut v = b"R".to_vec(); v.extend_from_slice(&(i as u64).to_le_bytes()); Blob::from(v) }
fn result_index(b: &Blob) -> Option<usize> { let s = b.as_slice(); if s.len() == 9 && s[0] == b'R' { Some(u64::from_le_bytes(s[1..9].try_into().unwrap()) as usize) } else { None } }

struct V { kind: &'static str, input: String, detail: String }

fn check_pairing(kind: &'static str, desc: &str, len: usize, keep: impl Fn(usize) -> bool, out: &[(TileCoord3, Blob)], viol: &mut Vec<V>) -> Vec<usize> {
	let mut seen = vec![0u32; len];
	let mut order = Vec::new();
	for (c, b) in out {
		let i = index_of(c);
		order.push(i);
		match result_index(b) {
			Some(r) if r == i && i < len => seen[i] += 1,
			other => { viol.push(V { kind, input: desc.to_string(), detail: format!("output at coordinate index {i} carries the result of input {other:?}") }); return order; }
		}
	}
	for i in 0..len {
		let exp = if keep(i) { 1 } else { 0 };
		if seen[i] != exp { viol.push(V { kind, input: desc.to_string(), detail: format!("input {i} appears {} times in the output, expected {exp}", seen[i]) }); break; }
	}
	order
}

fn permutations(n: usize) -> Vec<Vec<usize>> {
	fn go(cur: &mut Vec<usize>, used: &mut Vec<bool>, n: usize, out: &mut Vec<Vec<usize>>) {
		if cur.len() == n { out.push(cur.clone()); return; }
		for i in 0..n { if !used[i] { used[i] = true; cur.push(i); go(cur, used, n, out); cur.pop(); used[i] = false; } }
	}
	let mut out = Vec::new(); go(&mut Vec::new(), &mut vec![false; n], n, &mut out); out
}

pub fn run(ctx: &Ctx) -> Result<()> {
	let rt = tokio::runtime::Builder::new_multi_thread().worker_threads(16).enable_all().build()?;
	let n = num_cpus_get();
	let mut out = Out::create(&ctx.out, "cases.txt")?;
	let mut viol: Vec<V> = Vec::new();
	let mut stats: BTreeMap<String, u64> = BTreeMap::new();
	let mut rng = Rng::new(ctx.seed);
	let mut reordered = 0u64;

	// 1. every completion order of small streams (delays force the order)
	let small = if ctx.thorough { 6 } else { 5 };
	for len in 0..=small {
		for perm in permutations(len) {
			// perm[k] = input index that should finish k-th
			let mut delay = vec![0u32; len];
			for (rank, &i) in perm.iter().enumerate() { delay[i] = 300 + rank as u32 * 2500; }
			let items: Vec<(TileCoord3, Blob)> = (0..len).map(|i| (coord_of(i), blob_of(i, delay[i]))).collect();
			let desc = format!("map len={len} forced-order={perm:?}");
			let res = rt.block_on(async { TileStream::from_vec(items).map_blob_parallel(work).collect().await });
			let order = check_pairing("map-pairing", &desc, len, |_| true, &res, &mut viol);
			if order != (0..len).collect::<Vec<_>>() { reordered += 1; }
			if order == perm { *stats.entry("forced_order_achieved".into()).or_insert(0) += 1; }
			// the model decides acceptance with unary naturals: lines are emitted for streams up to 1500 items
		if len <= 1500 { out.line(&format!("acc {n} {len} {} => 1", order.iter().map(|x| x.to_string()).collect::<Vec<_>>().join(","))); }
			*stats.entry("small_perm_runs".into()).or_insert(0) += 1;
		}
	}
	// 2. long streams with adversarial delays: map, filter_map, from_coord_iter_parallel
	let runs = if ctx.thorough { 60 } else { 10 };
	for r in 0..runs {
		let len = if r == 0 { 0 } else if r == 1 { 1 } else if ctx.thorough && r % 7 == 0 { 10_000 } else { rng.range(2, 1500) as usize };
		let delays: Vec<u32> = (0..len).map(|i| match rng.below(6) { 0 => 0, 1 => 1500, 2 => if i % 17 == 0 { 6000 } else { 0 }, _ => rng.below(400) as u32 }).collect();
		let items: Vec<(TileCoord3, Blob)> = (0..len).map(|i| (coord_of(i), blob_of(i, delays[i]))).collect();
		let desc = format!("map len={len} seed={} run={r}", ctx.seed);
		let res = rt.block_on(async { TileStream::from_vec(items.clone()).map_blob_parallel(work).collect().await });
		let order = check_pairing("map-pairing", &desc, len, |_| true, &res, &mut viol);
		if order != (0..len).collect::<Vec<_>>() { reordered += 1; }
		// the model decides acceptance with unary naturals: lines are emitted for streams up to 1500 items
		if len <= 1500 { out.line(&format!("acc {n} {len} {} => 1", order.iter().map(|x| x.to_string()).collect::<Vec<_>>().join(","))); }

		let res = rt.block_on(async { TileStream::from_vec(items.clone()).filter_map_blob_parallel(|b| { let (i, _) = parse_blob(&b); let w = work(b); if i % 3 == 1 { None } else { Some(w) } }).collect().await });
		check_pairing("filter_map-pairing", &format!("filter_map len={len} seed={} run={r}", ctx.seed), len, |i| i % 3 != 1, &res, &mut viol);

		let dl = delays.clone();
		let res = rt.block_on(async { TileStream::from_coord_iter_parallel((0..len).map(coord_of), move |c| { let i = index_of(&c); let w = work(blob_of(i, dl[i])); if i % 4 == 2 { None } else { Some(w) } }).collect().await });
		check_pairing("from_coords-pairing", &format!("from_coord_iter_parallel len={len} seed={} run={r}", ctx.seed), len, |i| i % 4 != 2, &res, &mut viol);
		*stats.entry("long_runs".into()).or_insert(0) += 3;
		*stats.entry("long_items".into()).or_insert(0) += 3 * len as u64;

		// buffered consumer
		for k in [0usize, 1, 2, 3, 7, 64, 2000] {
			let mut sizes = Vec::new(); let mut flat = Vec::new();
			rt.block_on(async { TileStream::from_vec(items.clone()).for_each_buffered(k, |chunk| { sizes.push(chunk.len()); for (c, _) in chunk { flat.push(index_of(&c)); } }).await });
			if flat != (0..len).collect::<Vec<_>>() { viol.push(V { kind: "buffered", input: format!("for_each_buffered k={k} len={len}"), detail: "items not delivered once each in order".into() }); }
			out.line(&format!("chunks {k} {len} => {}", sizes.iter().map(|x| x.to_string()).collect::<Vec<_>>().join(",")));
		}
	}
	// 3. sources that suspend (Poll::Pending + wake) before items and before the end, as readers doing I/O do; also with no work
	//    in flight at that moment (all delays 0) and behind another parallel operator
	for r in 0..(if ctx.thorough { 200 } else { 40 }) {
		let len = match r { 0 => 0, 1 => 1, 2 => 2, _ => rng.range(2, if r % 5 == 0 { 600 } else { 40 }) as usize };
		let slow = r % 2 == 1;
		let delays: Vec<u32> = (0..len).map(|_| if slow { rng.below(300) as u32 } else { 0 }).collect();
		let items: Vec<(TileCoord3, Blob)> = (0..len).map(|i| (coord_of(i), blob_of(i, delays[i]))).collect();
		let mode = r % 4;
		let susp: Vec<u8> = (0..len).map(|i| match mode { 0 => 1, 1 => (rng.below(4) as u8) * (rng.below(2) as u8), 2 => if i == 0 { 3 } else { 0 }, _ => if i + 1 == len { 2 } else { (i % 3 == 0) as u8 } }).collect();
		let end_susp = (r % 3) as u8;
		let d = format!("len={len} suspensions={:?}{} end={end_susp} delays={}", &susp[..susp.len().min(12)], if susp.len() > 12 { "..." } else { "" }, if slow { "random" } else { "0" });
		let res = rt.block_on(async { suspending(items.clone(), susp.clone(), end_susp).map_blob_parallel(work).collect().await });
		check_pairing("map-suspending-source", &format!("map over a suspending source {d}"), len, |_| true, &res, &mut viol);
		let res = rt.block_on(async { suspending(items.clone(), susp.clone(), end_susp).filter_map_blob_parallel(|b| { let (i, _) = parse_blob(&b); let w = work(b); if i % 3 == 1 { None } else { Some(w) } }).collect().await });
		check_pairing("filter_map-suspending-source", &format!("filter_map over a suspending source {d}"), len, |i| i % 3 != 1, &res, &mut viol);
		// two parallel operators in a row (the shape of `from_debug | vectortiles_update_properties`)
		let dl = delays.clone();
		let res = rt.block_on(async { TileStream::from_coord_iter_parallel((0..len).map(coord_of), move |c| { let i = index_of(&c); Some(blob_of(i, dl[i])) }).map_blob_parallel(work).collect().await });
		check_pairing("chained-parallel", &format!("from_coord_iter_parallel | map_blob_parallel {d}"), len, |_| true, &res, &mut viol);
		let res = rt.block_on(async { suspending(items.clone(), susp.clone(), end_susp).map_blob_parallel(work).filter_map_blob_parallel(|b| { let i = result_index(&b).unwrap_or(0); if i % 5 == 0 { None } else { Some(b) } }).collect().await });
		check_pairing("chained-parallel", &format!("suspending | map | filter_map {d}"), len, |i| i % 5 != 0, &res, &mut viol);
		// plain consumers of a suspending source
		let res = rt.block_on(async { suspending(items.clone(), susp.clone(), end_susp).collect().await });
		if res.iter().map(|(c, _)| index_of(c)).collect::<Vec<_>>() != (0..len).collect::<Vec<_>>() { viol.push(V { kind: "collect-suspending-source", input: format!("collect {d}"), detail: format!("{} of {len} items", res.len()) }); }
		let mut flat = Vec::new();
		rt.block_on(async { suspending(items.clone(), susp.clone(), end_susp).for_each_buffered(7, |chunk| { for (c, _) in chunk { flat.push(index_of(&c)); } }).await });
		if flat != (0..len).collect::<Vec<_>>() { viol.push(V { kind: "buffered", input: format!("for_each_buffered over a suspending source {d}"), detail: format!("{} of {len} items", flat.len()) }); }
		*stats.entry("suspending_runs".into()).or_insert(0) += 6;
		*stats.entry("long_runs".into()).or_insert(0) += 6;
	}
	// the operators in use: TileConverter::process_stream (what `convert` recompresses with) on streams with slow tiles
	// (large, incompressible) between runs of identical small tiles: every output must decode to its own input
	{
		use versatiles_container::tile_converter::TileConverter; use versatiles_core::utils::decompress; use versatiles_core::types::TileCompression;
		let rt8 = tokio::runtime::Builder::new_multi_thread().worker_threads(8).enable_all().build()?;
		let mut cases = 0u64;
		'conv: for round in 0..(if ctx.thorough { 40 } else { 8 }) {
			let mut items: Vec<(TileCoord3, Blob)> = Vec::new();
			let smalls: Vec<Vec<u8>> = (0..3).map(|k| vec![k as u8 + 1; 20 + k * 7]).collect();
			for i in 0..400u32 { let data = if i % 23 == 5 { rng.bytes(150_000 + (i as usize % 7) * 10_000) } else { smalls[((i / 6) % 3) as usize].clone() }; items.push((TileCoord3 { x: i % 64, y: i / 64, z: 8 }, Blob::from(data))); }
			let expect: std::collections::HashMap<(u32, u32), Vec<u8>> = items.iter().map(|(c, b)| ((c.x, c.y), b.as_slice().to_vec())).collect();
			let target = if round % 2 == 0 { TileCompression::Gzip } else { TileCompression::Brotli };
			let conv = TileConverter::new_tile_recompressor(&TileCompression::Uncompressed, &target, false)?;
			let out_items: Vec<(TileCoord3, Blob)> = rt8.block_on(async { conv.process_stream(TileStream::from_vec(items)).collect().await });
			cases += 1;
			let desc = format!("TileConverter::process_stream Uncompressed -> {target:?} over 400 tiles (runs of identical small tiles, a 150 KB tile every 23rd), 8 workers, round {round}");
			if out_items.len() != expect.len() { viol.push(V { kind: "in-use", input: desc, detail: format!("{} outputs for {} inputs", out_items.len(), expect.len()) }); break 'conv; }
			for (c, b) in &out_items { let back = decompress(b.clone(), &target).map(|x| x.into_vec()).unwrap_or_default();
				if expect.get(&(c.x, c.y)) != Some(&back) { viol.push(V { kind: "in-use", input: desc.clone(), detail: format!("the output at {}/{}/{} decodes to {} bytes that are not its input ({} bytes)", c.z, c.x, c.y, back.len(), expect.get(&(c.x, c.y)).map_or(0, |v| v.len())) }); break 'conv; } }
		}
		stats.insert("convert_stream_runs".into(), cases);
	}
	// the operators in use: from_debug generates its stream with from_coord_iter_parallel
	{ let mut cases = 0u64; for (desc, detail) in crate::mvt::debug_stream_mismatches(ctx.thorough, &mut cases)? { viol.push(V { kind: "in-use", input: desc, detail }); } stats.insert("debug_stream_runs".into(), cases); }
	stats.insert("reordered_runs".into(), reordered);
	stats.insert("window_n".into(), n as u64);
	let lines = out.lines;
	out.finish();
	let mut v = Out::create(&ctx.out, "spec_violations.jsonl")?;
	for x in &viol { v.line(&format!("{{\"kind\":{},\"input\":{},\"replay\":{},\"detail\":{}}}", jstr(x.kind), jstr(&x.input), jstr(&x.input), jstr(&x.detail))); }
	v.finish();
	let mut s = Out::create(&ctx.out, "stats.json")?;
	s.line(&format!("{{\"lines\":{lines},\"spec_cases\":{},\"spec_violations\":{},\"groups\":{{{}}}}}", stats.get("small_perm_runs").unwrap_or(&0) + stats.get("long_runs").unwrap_or(&0), viol.len(),
		stats.iter().map(|(k, v)| format!("{}:{}", jstr(k), v)).collect::<Vec<_>>().join(",")));
	s.finish();
	Ok(())
}

/// a stream over `items` that returns Pending (and wakes itself) `susp[i]` times before item i and `end_susp` times before it ends
fn suspending(items: Vec<(TileCoord3, Blob)>, susp: Vec<u8>, end_susp: u8) -> TileStream<'static> {
	use std::task::Poll;
	let mut it = items.into_iter().enumerate(); let mut left: Option<(u8, (TileCoord3, Blob))> = None; let mut end_left = end_susp; let mut done = false;
	TileStream::from_stream(Box::pin(futures::stream::poll_fn(move |cx| {
		if done { return Poll::Ready(None); }
		if left.is_none() { match it.next() { Some((i, x)) => left = Some((susp[i], x)), None => { if end_left > 0 { end_left -= 1; cx.waker().wake_by_ref(); return Poll::Pending; } done = true; return Poll::Ready(None); } } }
		let n = &mut left.as_mut().unwrap().0; if *n > 0 { *n -= 1; cx.waker().wake_by_ref(); return Poll::Pending; }
		Poll::Ready(left.take().map(|(_, x)| x))
	})))
}

fn num_cpus_get() -> usize { std::thread::available_parallelism().map(|n| n.get()).unwrap_or(1) }
