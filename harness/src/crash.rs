//! C12: interrupted writes. A recording DataWriterTrait captures the writer's operation sequence; every
//! prefix of it and every byte cut of every operation is materialised and opened with the reader:
//! opening must fail, or every source tile must be returned intact.
use crate::formats::gen_tiles_shape;
use crate::memsrc::MemSource;
use crate::util::*;
use crate::Ctx;
use anyhow::Result;
use std::collections::HashMap;
use versatiles_container::{PMTilesReader, PMTilesWriter, TilesWriterTrait, VersaTilesReader, VersaTilesWriter};
use versatiles_core::io::{DataReaderBlob, DataWriterTrait};
use versatiles_core::types::*;
use versatiles_core::utils::compress;

#[derive(Clone, Debug)]
pub enum Op { Append(u64, Vec<u8>), WriteStart(Vec<u8>), SetPos(u64) }

#[derive(Default)]
pub struct RecWriter { pub ops: Vec<Op>, pos: u64 }
impl DataWriterTrait for RecWriter {
	fn append(&mut self, blob: &Blob) -> Result<ByteRange> {
		let r = ByteRange::new(self.pos, blob.len());
		self.ops.push(Op::Append(self.pos, blob.as_slice().to_vec()));
		self.pos += blob.len();
		Ok(r)
	}
	fn write_start(&mut self, blob: &Blob) -> Result<()> { self.ops.push(Op::WriteStart(blob.as_slice().to_vec())); Ok(()) }
	fn get_position(&mut self) -> Result<u64> { Ok(self.pos) }
	fn set_position(&mut self, position: u64) -> Result<()> { self.ops.push(Op::SetPos(position)); self.pos = position; Ok(()) }
}

fn put(file: &mut Vec<u8>, at: usize, data: &[u8]) { if file.len() < at + data.len() { file.resize(at + data.len(), 0); } file[at..at + data.len()].copy_from_slice(data); }
/// file after `k` complete operations plus the first `cut` bytes of operation k
pub fn materialise(ops: &[Op], k: usize, cut: usize) -> Vec<u8> {
	let mut f = Vec::new();
	for (i, op) in ops.iter().enumerate() {
		if i > k { break; }
		let part = |d: &Vec<u8>| -> Vec<u8> { if i < k { d.clone() } else { d[..cut.min(d.len())].to_vec() } };
		match op { Op::Append(at, d) => { let p = part(d); if !p.is_empty() || i < k { put(&mut f, *at as usize, &p); } } Op::WriteStart(d) => { let p = part(d); put(&mut f, 0, &p); } Op::SetPos(_) => {} }
	}
	f
}

fn hexd(d: &[u8]) -> String { if d.is_empty() { "-".into() } else { hex(d) } }
pub fn op_shape(ops: &[Op]) -> String {
	ops.iter().map(|o| match o { Op::Append(at, d) => format!("A{at}+{}", d.len()), Op::WriteStart(d) => format!("W{}", d.len()), Op::SetPos(p) => format!("S{p}") }).collect::<Vec<_>>().join(",")
}

pub fn run(ctx: &Ctx) -> Result<()> {
	let mut col = Collector::new(&ctx.out)?;
	let rt = tokio::runtime::Builder::new_current_thread().enable_all().build()?;
	let mut rng = Rng::new(ctx.seed ^ 0x12);
	// premise of the model: the real file writer starts from an empty file, whatever was at the path before
	{ use versatiles_core::io::DataWriterFile;
		let p = std::fs::canonicalize(&ctx.out)?.join("existing.bin");
		std::fs::write(&p, vec![0xABu8; 40_000])?;
		col.spec_cases += 1;
		match guarded(|| DataWriterFile::from_path(&p)) {
			Ok(Ok(mut w)) => { let _ = w.append(&Blob::from(vec![1u8, 2, 3])); drop(w); let len = std::fs::metadata(&p).map(|m| m.len()).unwrap_or(0);
				if len != 3 { col.violation("stale-bytes", "DataWriterFile::from_path on an existing 40000-byte file, then append of 3 bytes", "", &format!("the file is {len} bytes long: bytes of the previous file survive, so an interrupted overwrite of a container keeps the old header and directory in front of new tile data")); } }
			Ok(Err(e)) => col.violation("writer-open", "DataWriterFile::from_path on an existing file", "", &format!("{e:#}")),
			Err(m) => col.violation("writer-open", "DataWriterFile::from_path on an existing file", "", &m),
		}
		let _ = std::fs::remove_file(&p);
	}
	let nsets = if ctx.thorough { 40 } else { 6 };
	for i in 0..nsets {
		let mut tiles = if i % 6 == 2 {
			// many blocks: the compressed block index is longer than 255 bytes (two significant length bytes)
			let mut m = std::collections::HashMap::new();
			let z = 13 + (i as u8 % 2);
			for b in 0..(34 + rng.below(12)) as u32 { let (bx, by) = (b % 7, b / 7); m.insert((z, bx * 256 + rng.below(256) as u32, by * 256 + rng.below(256) as u32), (0..(6 + rng.below(20))).map(|_| rng.next() as u8).collect::<Vec<u8>>()); }
			m
		} else if i % 6 == 4 {
			// several zoom levels (a writer may reach a presentable state after each of them), one of them with two blocks
			let mut m = std::collections::HashMap::new();
			m.insert((0u8, 0u32, 0u32), rng.bytes(9));
			for _ in 0..3 { m.insert((2, rng.below(4) as u32, rng.below(4) as u32), { let n = 5 + rng.below(20) as usize; rng.bytes(n) }); }
			for _ in 0..3 { m.insert((5, rng.below(32) as u32, rng.below(32) as u32), { let n = 5 + rng.below(20) as usize; rng.bytes(n) }); }
			m.insert((9, 255, 17), rng.bytes(12)); m.insert((9, 256, 17), rng.bytes(12));
			if rng.chance(1, 2) { m.insert((12, rng.below(4096) as u32, rng.below(4096) as u32), rng.bytes(7)); }
			m
		} else { gen_tiles_shape(&mut rng, false, [1u64, 3, 0, 5, 4, 6][i % 6]) };
		// keep files small: short payloads, few tiles
		let keys: Vec<_> = tiles.keys().cloned().collect();
		for (j, k) in keys.iter().enumerate() { if i % 6 == 2 { continue; } if j >= 14 { tiles.remove(k); } else { let v = tiles.get_mut(k).unwrap(); v.truncate(40 + j); if v.is_empty() { v.push(7); } } }
		for fmt in ["versatiles", "pmtiles"] { for comp in [TileCompression::Uncompressed, TileCompression::Gzip, TileCompression::Brotli] {
			if !ctx.thorough && (i + comp as usize) % 3 != 0 { continue; }
			let stored: HashMap<(u8, u32, u32), Vec<u8>> = tiles.iter().map(|(c, d)| (*c, compress(Blob::from(d.clone()), &comp).unwrap().into_vec())).collect();
			let mut src = MemSource::new("mem", stored.iter().map(|(c, d)| (*c, d.clone())).collect(), TileFormat::PBF, comp);
			let mut w = RecWriter::default();
			let res = if fmt == "versatiles" { rt.block_on(VersaTilesWriter::write_to_writer(&mut src, &mut w)) } else { rt.block_on(PMTilesWriter::write_to_writer(&mut src, &mut w)) };
			if let Err(e) = res { col.violation("write-error", &format!("{fmt} set {i}"), "", &format!("{e:#}")); continue; }
			let ops = w.ops;
			col.bump(&format!("ops_{fmt}"), ops.len() as u64);
			// correspondence: the recorded sequence has the shape the theorems are about
			let enc = ops.iter().map(|o| match o { Op::Append(at, d) => format!("A{at}:{}", hexd(d)), Op::WriteStart(d) => format!("W:{}", hexd(d)), Op::SetPos(p) => format!("S{p}") }).collect::<Vec<_>>().join(",");
			let hl = if fmt == "versatiles" { 66 } else { 127 };
			let n = ops.len();
			if fmt == "versatiles" {
				col.out.line(&format!("c12.vt {enc} => wf"));
				// premise of C12_versatiles: decompress_brotli rejects every strict prefix of this block index
				if n >= 2 { if let Op::Append(_, idx) = &ops[n - 2] {
					col.bump("index_len_ge_256", (idx.len() >= 256) as u64);
					for m in 0..idx.len() { col.spec_cases += 1; if versatiles_core::utils::decompress_brotli(&Blob::from(idx[..m].to_vec())).is_ok() {
						col.violation("codec-premise", &format!("{fmt} {comp:?} set={i}"), "", &format!("decompress_brotli accepts the first {m} of the {} bytes of the block index (premise of theorem C12_versatiles)", idx.len())); break; } }
				} }
			} else {
				let mut opened = vec![];
				let mut test = |k: usize, c: usize| { let bytes = materialise(&ops, k, c); if let Ok(Ok(_)) = guarded(|| rt.block_on(PMTilesReader::open_reader(Box::new(DataReaderBlob::from(bytes))))) { opened.push(format!("{k}:{c}")); } };
				for k in 0..=n { test(k, 0); }
				for c in 1..=127 { test(n - 1, c); }
				col.out.line(&format!("c12.pm {enc} => wf {}", opened.join(",")));
			}
			// correspondence: header parsing of every torn final header
			#[cfg(not(verif_nohooks))]
			for c in 0..=hl { let bytes = materialise(&ops, n - 1, c); if bytes.len() < hl { continue; } let h = bytes[..hl].to_vec();
				if fmt == "versatiles" {
					use versatiles_container::verif_versatiles_types::FileHeader;
					let mut dr: versatiles_core::io::DataReader = Box::new(DataReaderBlob::from(h.clone()));
					let r = match guarded(|| rt.block_on(FileHeader::from_reader(&mut dr))) { Ok(Ok(fh)) => format!("ok {} {} {} {}", fh.meta_range.offset, fh.meta_range.length, fh.blocks_range.offset, fh.blocks_range.length), Ok(Err(_)) => "err".into(), Err(_) => "panic".into() };
					col.out.line(&format!("c12.vthdr {} => {r}", hex(&h)));
				} else {
					use versatiles_container::verif_pmtiles_types::HeaderV3;
					let r = match guarded(|| -> Result<String> { let hd = HeaderV3::deserialize(&Blob::from(h.clone()))?; hd.internal_compression.as_value()?; hd.tile_compression.as_value()?; hd.tile_type.as_value()?; Ok(hex(&hd.serialize()?.as_slice()[..99])) }) { Ok(Ok(x)) => format!("ok {x}"), Ok(Err(_)) => "err".into(), Err(_) => "panic".into() };
					col.out.line(&format!("c12.pmhdr {} => {r}", hex(&h)));
				}
			}
			let desc0 = format!("{fmt} {comp:?} set={i} tiles={} ops=[{}]", tiles.len(), op_shape(&ops));
			// every crash state
			let mut states = 0u64; let mut opened = 0u64;
			for k in 0..=ops.len() {
				let len_k = if k < ops.len() { match &ops[k] { Op::Append(_, d) | Op::WriteStart(d) => d.len(), Op::SetPos(_) => 0 } } else { 0 };
				let cuts: Vec<usize> = if k == ops.len() { vec![0] } else if len_k <= 300 || ctx.thorough { (0..len_k.max(1)).collect() } else { let mut v: Vec<usize> = (0..130).collect(); v.extend((0..60).map(|_| rng.below(len_k as u64) as usize)); v };
				for cut in cuts {
					let bytes = materialise(&ops, k, cut);
					states += 1;
					let complete = k == ops.len();
					let reader: Option<Box<dyn TilesReaderTrait>> = match guarded(|| -> Result<Box<dyn TilesReaderTrait>> {
						let dr = Box::new(DataReaderBlob::from(bytes.clone()));
						Ok(if fmt == "versatiles" { rt.block_on(VersaTilesReader::open_reader(dr))?.boxed() } else { rt.block_on(PMTilesReader::open_reader(dr))?.boxed() })
					}) { Ok(Ok(r)) => Some(r), Ok(Err(_)) => None, Err(m) => { col.violation("open-panic", &format!("{desc0} crash after op {k} + {cut} bytes"), "", &m); None } };
					match reader {
						None => if complete { col.violation("complete-file-rejected", &desc0, "", "the completely written file does not open"); },
						Some(r) => {
							opened += 1;
							// every source tile must come back intact
							for (c, d) in &stored {
								if d.is_empty() { continue; }
								let got = guarded(|| rt.block_on(r.get_tile_data(&TileCoord3 { x: c.1, y: c.2, z: c.0 })));
								let ok = matches!(&got, Ok(Ok(Some(b))) if b.as_slice() == d.as_slice());
								if !ok {
									col.violation("wrong-container-accepted", &format!("{desc0} crash after op {k} + {cut} bytes"), "",
										&format!("the truncated file opens, but tile {}/{}/{} is {}", c.0, c.1, c.2, match &got { Ok(Ok(Some(b))) => format!("{} bytes with wrong content", b.len()), Ok(Ok(None)) => "missing".into(), Ok(Err(e)) => format!("an error: {e}"), Err(m) => format!("a panic: {m}") }));
									break;
								}
							}
						}
					}
				}
			}
			col.spec_cases += states;
			col.bump("crash_states", states); col.bump("states_that_open", opened);
		} }
	}
	col.finish()
}
