//! C19: decoders with an error channel report malformed input as an error and never bring the
//! process down.  Every input is derived from (seed, target, index) alone.  All decoding happens in
//! child processes (address space and stack limited through `ulimit`), which record the index they
//! are about to run: a child that dies on a signal (stack overflow, allocation failure, abort)
//! identifies its input; panics are caught in-process with catch_unwind.
use crate::indep;
use crate::memsrc::MemSource;
use crate::util::*;
use crate::Ctx;
use anyhow::Result;
use std::io::Write;
use versatiles_container::{get_reader, write_to_filename, PMTilesReader, VersaTilesReader};
use versatiles_core::io::DataReaderBlob;
use versatiles_core::types::*;

pub const TARGETS: [&str; 11] = ["json", "tilejson", "csv", "csvfile", "vpl", "mvt", "versatiles", "pmtiles", "mbtiles", "tar", "dir"];

fn mix(seed: u64, target: &str, idx: u64) -> Rng { let mut h = seed ^ 0xC19C19; for b in target.bytes() { h = h.wrapping_mul(1099511628211) ^ b as u64; } Rng::new(h ^ idx.wrapping_mul(0x9E3779B97F4A7C15)) }

// ------------------------------------------------------------------ byte / text mutation
fn mutate_bytes(rng: &mut Rng, mut b: Vec<u8>) -> Vec<u8> {
	for _ in 0..rng.range(1, 3) {
		if b.is_empty() { b.push(rng.next() as u8); continue; }
		let k = rng.below(b.len() as u64) as usize;
		match rng.below(9) {
			0 => b[k] ^= 1 << rng.below(8),
			1 => b.truncate(k),
			2 => b[k] = *rng.pick(&[0u8, 0xff, 0x80, 0x7f, 1]),
			3 => b.insert(k, rng.next() as u8),
			4 => { for j in k..(k + 4).min(b.len()) { b[j] = 0xff; } }          // length-field corruption
			5 => { for j in k..(k + 8).min(b.len()) { b[j] = 0; } }
			6 => { let e = (k + rng.below(16) as usize).min(b.len()); b.drain(k..e); }
			7 => { let e = (k + rng.below(32) as usize).min(b.len()); let s: Vec<u8> = b[k..e].to_vec(); let at = rng.below(b.len() as u64 + 1) as usize; for (i, x) in s.into_iter().enumerate() { b.insert(at + i, x); } }
			_ => { b.remove(k); }
		}
	}
	b
}
fn mutate_text(rng: &mut Rng, s: &str) -> Vec<u8> {
	let mut cs: Vec<char> = s.chars().collect();
	for _ in 0..rng.range(1, 3) {
		let k = rng.below(cs.len() as u64 + 1) as usize;
		match rng.below(6) {
			0 => cs.insert(k, *rng.pick(&['é', '✓', '😀', '\u{0}', '"', '\\', ',', '[', '{', '|', '\n', 'u'])),   // multi-byte UTF-8 at any position
			1 => { if k < cs.len() { cs.remove(k); } }
			2 => cs.truncate(k),
			3 => { if k < cs.len() { cs[k] = *rng.pick(&['"', '\\', '€', '0', '-', ']', '}', ' ']); } }
			4 => { let t: Vec<char> = cs.iter().skip(k).take(8).cloned().collect(); for (i, c) in t.into_iter().enumerate() { cs.insert(k + i, c); } }
			_ => { if k < cs.len() { let c = cs[k]; cs.insert(k, c); } }
		}
	}
	let mut b = cs.into_iter().collect::<String>().into_bytes();
	if rng.chance(1, 8) { b = mutate_bytes(rng, b); }   // also invalid UTF-8
	b
}

// ------------------------------------------------------------------ valid seeds
const JSONS: [&str; 9] = [r#"{"a":[1,2.5,-3e2,true,false,null],"b":{"c":"dé\n"},"e":""}"#, "[]", r#""😀 x \\ \" / \b\f\n\r\t""#, "-0.0e-7", r#"{"bounds":[-180,-85,180,85],"vector_layers":[{"id":"a","fields":{"x":"String"}}],"tilejson":"3.0.0","minzoom":0,"maxzoom":14}"#,
	r#"[[[[[[[[1]]]]]]]]"#, r#"{"k":{"k":{"k":{"k":[{"k":1}]}}}}"#, "  [ 1 , \"é✓😀\" ]  ", r#"{"center":[1,2,3],"name":"x","tiles":["a"],"attribution":"©"}"#];
const CSVS: [&str; 7] = ["id,name,n\n1,\"a,b\",3\n2,\"q\"\"x\",4\n", "a\n", "id;x\r\n1;2\r\n", "\"id\",\"v\"\n\"1\",\"é😀\"\n", "id,v\n1,\n,2\n\n", "id,name\n0,zero\n1,\"multi\nline\"\n2,x", ""];
const VPLS: [&str; 10] = ["from_container filename=mem", "from_container filename=mem | filter_zoom min=1 max=3", "from_container filename=mem | filter_bbox bbox=[-10,-10,10,10]",
	"from_overlayed [ from_container filename=mem, from_container filename=mem | filter_zoom min=2 ]", "from_container filename=\"a b.versatiles\" | meta_update name=\"x\\\"y\"",
	"from_container filename=mem | vectortiles_update_properties data_source_path=\"DATA\" id_field_tiles=tid id_field_data=id layer_name=a replace_properties=true",
	"from_vectortiles_merged [ from_container filename=mem, from_container filename=mem ]", "from_debug format=pbf | filter_zoom max=2", "from_container filename=mem | filter_bbox bbox=[1,2,3]", "from_container filename=mem | filter_zoom min=9 max=1"];

fn small_tiles(rng: &mut Rng) -> indep::TileMap {
	let mut m = indep::TileMap::new();
	for _ in 0..rng.range(1, 9) { let z = *rng.pick(&[0u8, 1, 3, 5, 9, 12]); let mx = (1u64 << z) - 1; let n = 1 + rng.below(40) as usize; m.insert((z, rng.below(mx + 1) as u32, rng.below(mx + 1) as u32), rng.bytes(n)); }
	if rng.chance(1, 2) { let p = rng.bytes(9); for id in 20..26 { m.insert(indep::id_tile(id), p.clone()); } }
	m
}
/// lookups worth making in a container built from `tiles`: every tile, and the corners of every
/// 256-block's tile bounding box and of the full block (last slots of a tile index)
fn coords_of(tiles: &indep::TileMap) -> Vec<(u8, u32, u32)> {
	let mut v: Vec<(u8, u32, u32)> = tiles.keys().cloned().collect(); v.sort();
	let mut groups: std::collections::BTreeMap<(u8, u32, u32), Vec<(u32, u32)>> = Default::default();
	for (z, x, y) in tiles.keys() { groups.entry((*z, x >> 8, y >> 8)).or_default().push((*x, *y)); }
	for ((z, bx, by), cs) in groups {
		let (x0, x1, y0, y1) = (cs.iter().map(|c| c.0).min().unwrap(), cs.iter().map(|c| c.0).max().unwrap(), cs.iter().map(|c| c.1).min().unwrap(), cs.iter().map(|c| c.1).max().unwrap());
		let lim = if z >= 8 { 255 } else { (1u32 << z) - 1 };
		for c in [(x0, y0), (x1, y1), (x0, y1), (x1, y0), (bx * 256 + lim, by * 256 + lim), (bx * 256, by * 256)] { v.push((z, c.0, c.1)); }
	}
	let mut w = v.clone(); w.reverse(); v.extend(w);
	v.truncate(120);
	v
}
fn written_by_repo(rt: &tokio::runtime::Runtime, tiles: &indep::TileMap, container: &str, dir: &std::path::Path) -> Result<std::path::PathBuf> {
	let p = if container == "dir" { dir.join("seed_dir") } else { dir.join(format!("seed.{container}")) };
	if container == "dir" { let _ = std::fs::remove_dir_all(&p); std::fs::create_dir_all(&p)?; } else { let _ = std::fs::remove_file(&p); }
	let mut src = MemSource::new("mem", tiles.iter().map(|(c, d)| (*c, d.clone())).collect(), TileFormat::PNG, TileCompression::Uncompressed);
	rt.block_on(write_to_filename(&mut src, p.to_str().unwrap()))?;
	Ok(p)
}

/// re-pack a versatiles file with a mutated (decompressed) block index or tile index, so that the
/// mutation reaches the parsers behind the brotli layer
fn corrupt_versatiles_inner(rng: &mut Rng, f: &[u8]) -> Option<Vec<u8>> {
	if f.len() < 66 { return None; }
	let be = |b: &[u8]| b.iter().fold(0u64, |a, x| (a << 8) | *x as u64);
	let (boff, blen) = (be(&f[50..58]) as usize, be(&f[58..66]) as usize);
	let mut bi = indep::unbrotli(f.get(boff..boff.checked_add(blen)?)?).ok()?;
	let mut out = f.to_vec();
	if rng.chance(1, 2) && bi.len() >= 33 {
		// mutate a tile index of one block
		let k = rng.below((bi.len() / 33) as u64) as usize * 33;
		let (off, tlen, ilen) = (be(&bi[k + 13..k + 21]) as usize, be(&bi[k + 21..k + 29]) as usize, be(&bi[k + 29..k + 33]) as usize);
		let ti = indep::unbrotli(f.get(off + tlen..off + tlen + ilen)?).ok()?;
		let ti2 = match rng.below(5) { 0 => mutate_bytes(rng, ti), 1 => { let mut t = ti; t.extend([0u8; 12]); t } 2 => { let mut t = ti; t.truncate(t.len().saturating_sub(12)); t }
			// a whole field of one entry pushed to the border of its type: offset (u64) or length (u32)
			_ => { let mut t = ti; if t.len() >= 12 { let e = rng.below((t.len() / 12) as u64) as usize * 12; if rng.chance(2, 3) { let v = u64::MAX - *rng.pick(&[0u64, 1, 50, 1000]); t[e..e + 8].copy_from_slice(&v.to_be_bytes()); } else { t[e + 8..e + 12].copy_from_slice(&u32::MAX.to_be_bytes()); } } t } };
		let c = indep::brotli_c(&ti2);
		// place the new index right behind a copy of nothing: point the block at the end of the file
		let new_off = out.len() as u64; out.extend(&c);
		// tiles_range stays; index_range = (offset + tiles_length, index_length) by the format, so move the whole block view
		let tl = (new_off as i128 - off as i128) as u64; // pretend the tiles part is that long
		bi[k + 21..k + 29].copy_from_slice(&tl.to_be_bytes()); bi[k + 29..k + 33].copy_from_slice(&(c.len() as u32).to_be_bytes());
	} else {
		match rng.below(4) {
			0 => bi = mutate_bytes(rng, bi),
			1 => { if bi.len() >= 33 { let k = rng.below((bi.len() / 33) as u64) as usize * 33; let fld = *rng.pick(&[(1usize, 4usize), (5, 4), (9, 1), (10, 1), (11, 1), (12, 1), (13, 8), (21, 8), (29, 4), (0, 1)]); for j in 0..fld.1 { bi[k + fld.0 + j] = *rng.pick(&[0xffu8, 0, 0x80]); } } }
			2 => { let d: Vec<u8> = bi.iter().take(33).cloned().collect(); bi.extend(d); }      // duplicate block
			_ => bi.truncate(bi.len().saturating_sub(rng.below(34) as usize)),
		}
	}
	let c = indep::brotli_c(&bi);
	let noff = out.len() as u64; out.extend(&c);
	out[50..58].copy_from_slice(&noff.to_be_bytes()); out[58..66].copy_from_slice(&(c.len() as u64).to_be_bytes());
	Some(out)
}

/// PMTiles with hand-made directories: unsorted ids, id sums beyond u64, offset shorthand on the first
/// entry, leaf pointers to themselves / to garbage, huge counts and run lengths
fn corrupt_pmtiles_dirs(rng: &mut Rng) -> Vec<u8> {
	let mut dir: Vec<u8> = vec![];
	let n = rng.range(1, 5);
	let kind = rng.below(9);
	if kind == 8 {
		// a directory whose only entry is a leaf pointer to the directory itself
		let dir = [1u8, 0, 0, 5, 1];
		let mut f = vec![0u8; 127]; f.extend(dir); f.extend(b"{}");
		f[0..7].copy_from_slice(b"PMTiles"); f[7] = 3;
		let vals = [127u64, 5, 132, 2, 127, 5, 134, 0, 1, 1, 1];
		for (i, v) in vals.iter().enumerate() { f[8 + 8 * i..16 + 8 * i].copy_from_slice(&v.to_le_bytes()); }
		f[96] = 1; f[97] = 1; f[98] = 1; f[99] = 2;
		return f;
	}
	indep::put_varint(&mut dir, if kind == 0 { *rng.pick(&[u64::MAX, 10_000_000_001, 1 << 40, 9_999_999_999]) } else { n });
	for i in 0..n { indep::put_varint(&mut dir, if kind == 1 { u64::MAX - rng.below(3) } else if kind == 2 && i > 0 { 0 } else { rng.below(50) }); }
	for _ in 0..n { indep::put_varint(&mut dir, match kind { 3 => 0, 4 => (1 << 32) + 3, 5 => 1 << 33, _ => rng.below(3) }); }
	for _ in 0..n { indep::put_varint(&mut dir, if kind == 6 { u64::MAX } else { 1 + rng.below(40) }); }
	for i in 0..n { indep::put_varint(&mut dir, if kind == 7 && i == 0 { 0 } else if kind == 6 { u64::MAX } else if kind == 3 { 1 } else { rng.below(60) }); }
	// kind 3: every entry is a leaf pointer to offset 0 of the leaf section, which holds this very directory
	let mut f = vec![0u8; 127];
	let root_off = f.len() as u64; f.extend(&dir);
	let leaf_off = if kind == 3 { root_off } else { f.len() as u64 };
	let meta_off = f.len() as u64; f.extend(b"{}");
	let data_off = f.len() as u64; f.extend(rng.bytes(64));
	f[0..7].copy_from_slice(b"PMTiles"); f[7] = 3;
	let vals = [root_off, dir.len() as u64, meta_off, 2, leaf_off, if kind == 3 { dir.len() as u64 + 200 } else { 0 }, data_off, 64, n, n, n];
	for (i, v) in vals.iter().enumerate() { f[8 + 8 * i..16 + 8 * i].copy_from_slice(&v.to_le_bytes()); }
	f[96] = 1; f[97] = 1; f[98] = 1; f[99] = 2; f[101] = 5;
	f
}

fn weird_mbtiles(rng: &mut Rng, path: &std::path::Path) -> Result<()> {
	use r2d2_sqlite::rusqlite::{params, Connection};
	let _ = std::fs::remove_file(path);
	let c = Connection::open(path)?;
	let kind = rng.below(9);
	if kind != 0 { c.execute_batch("CREATE TABLE metadata (name text, value text);")?; }
	if kind != 1 { c.execute_batch("CREATE TABLE tiles (zoom_level integer, tile_column integer, tile_row integer, tile_data blob);")?; }
	if kind != 0 {
		let fmt = match kind { 2 => "unknownformat", 3 => "", 4 => "PBF", 5 => "pbf", _ => "png" };
		if kind != 6 { c.execute("INSERT INTO metadata VALUES ('format', ?1)", params![fmt])?; }
		c.execute("INSERT INTO metadata VALUES ('bounds', 'a,b,c')", [])?;
		c.execute("INSERT INTO metadata VALUES ('json', '{\"vector_layers\":[')", [])?;
		if kind == 7 { c.execute("INSERT INTO metadata VALUES (NULL, NULL)", [])?; c.execute("INSERT INTO metadata VALUES ('minzoom', 'x')", [])?; }
	}
	if kind != 1 {
		let rows: [(i64, i64, i64); 5] = [(3, 1, 2), (-1, 0, 0), (40, 5, 5), (2, 9, 9), (2, -1, 1 << 40)];
		for (z, x, y) in rows.iter().take(1 + rng.below(5) as usize) { c.execute("INSERT INTO tiles VALUES (?1, ?2, ?3, ?4)", params![z, x, y, rng.bytes(5)])?; }
		if kind == 8 { c.execute("INSERT INTO tiles VALUES ('a', 'b', NULL, NULL)", [])?; }
	}
	Ok(())
}

/// a tile member name with a character in front of the extension whose lower / upper case form has another UTF-8 length
/// (KELVIN SIGN, OHM SIGN, ANGSTROM SIGN, capital sharp s, dotted capital I, ...), other multi-byte characters, digits of
/// other scripts, and extensions in mixed case
fn tricky_name(rng: &mut Rng) -> String {
	let specials = ["\u{212A}", "\u{2126}", "\u{212B}", "\u{1E9E}", "\u{0130}", "\u{00DF}", "\u{01C5}", "\u{00E9}", "\u{20AC}", "\u{1F600}", "\u{FF17}", "\u{0663}", "\u{FB03}", "\u{0149}", "\u{1F88}"];
	let exts = [".png", ".PNG", ".gz", ".GZ", ".br", ".Br", ".png.gz", ".pbf.BR", ".pbf.gz", "", ".", ".jpg.Gz"];
	let mut stem = String::new();
	stem.push_str(*rng.pick(&["", "7", "12", "3."]));
	for _ in 0..rng.range(1, 2) { stem.push_str(*rng.pick(&specials)); }
	stem.push_str(*rng.pick(&["", "", "5", "x"]));
	format!("{}/{}/{}{}", rng.below(4), rng.below(3), stem, *rng.pick(&exts))
}
fn weird_tar(rng: &mut Rng) -> Vec<u8> {
	let mut b = tar::Builder::new(Vec::new());
	let names: [&[u8]; 12] = [b"1/2/3.png", b"./1/2/3.png", b"a/b/c.png", b"1/2/x.png", b"1/2/3", b"1/2/3.png.gz", b"1/2/3.pbf", b"tiles.json", b"300/1/1.png", b"1/2/\xff\xfe.png", b"\xff/1/1.png", b"1//3.png"];
	for _ in 0..rng.range(1, 4) {
		let tricky = tricky_name(rng); let name: &[u8] = if rng.chance(1, 2) { tricky.as_bytes() } else { *rng.pick(&names) };
		let mut h = tar::Header::new_gnu();
		let d = if name == b"tiles.json" { b"{\"a\":".to_vec() } else { rng.bytes(6) };
		h.set_size(d.len() as u64); h.set_mode(0o644);
		if let Some(g) = h.as_gnu_mut() { let n = name.len().min(99); g.name[..n].copy_from_slice(&name[..n]); }
		h.set_cksum();
		b.append(&h, d.as_slice()).unwrap();
	}
	b.into_inner().unwrap()
}

pub struct Case { pub bytes: Vec<u8>, pub how: String, pub coords: Vec<(u8, u32, u32)> }

/// the input of (seed, target, idx); containers: the bytes of the file to open (tar/mbtiles/dir are
/// materialised by `execute`)
fn gen_case(target: &str, seed: u64, idx: u64, rt: &tokio::runtime::Runtime, dir: &std::path::Path) -> Case {
	let mut rng = mix(seed, target, idx);
	let rng = &mut rng;
	match target {
		"json" | "tilejson" => {
			if idx % 16 == 5 { let d = [8usize, 64, 200, 512][(idx / 16 % 4) as usize]; return Case { bytes: format!("{}1{}", "[".repeat(d), "]".repeat(d)).into_bytes(), how: format!("nesting depth {d}"), coords: vec![] }; }
			if idx % 16 == 6 { let d = [8usize, 64, 200][(idx / 16 % 3) as usize]; return Case { bytes: format!("{}1{}", "{\"k\":".repeat(d), "}".repeat(d)).into_bytes(), how: format!("object nesting depth {d}"), coords: vec![] }; }
			if idx % 16 == 7 { return Case { bytes: { let n = rng.below(40) as usize; rng.bytes(n) }, how: "random bytes".into(), coords: vec![] }; }
			// malformed documents in which a multi-byte character starts 0..3 bytes in front of a round byte offset (error texts and
			// buffers are cut at such offsets)
			if idx % 16 == 8 || idx % 16 == 9 { let at = *rng.pick(&[16usize, 32, 64, 100, 128, 200, 256, 1000, 1024, 4096]); let ch = *rng.pick(&["é", "€", "😀", "ß"]); let back = rng.below(4) as usize;
				let lead = "{\"name\":\""; let fill = at.saturating_sub(back).saturating_sub(lead.len());
				let tail = *rng.pick(&["\" x", "\",}", "", "\"}}", "\\u12\"}"]);
				return Case { bytes: format!("{lead}{}{}{}{tail}", "a".repeat(fill), ch.repeat(3), "b".repeat(rng.below(40) as usize)).into_bytes(), how: format!("malformed text, {ch} {back} bytes in front of byte {at}"), coords: vec![] }; }
			let s = *rng.pick(&JSONS); if idx % 5 == 0 { Case { bytes: s.as_bytes().to_vec(), how: "valid".into(), coords: vec![] } } else { Case { bytes: mutate_text(rng, s), how: "mutated text".into(), coords: vec![] } }
		}
		"csv" | "csvfile" => { let s = *rng.pick(&CSVS); if idx % 7 == 0 { Case { bytes: s.as_bytes().to_vec(), how: "valid".into(), coords: vec![] } } else if idx % 7 == 1 { Case { bytes: { let n = rng.below(30) as usize; rng.bytes(n) }, how: "random bytes".into(), coords: vec![] } } else { Case { bytes: mutate_text(rng, s), how: "mutated text".into(), coords: vec![] } } }
		"vpl" => {
			if idx % 16 == 5 { let d = [4usize, 32, 128][(idx / 16 % 3) as usize]; return Case { bytes: format!("{}from_container filename=mem{}", "from_overlayed [ ".repeat(d), " ]".repeat(d)).into_bytes(), how: format!("nesting depth {d}"), coords: vec![] }; }
			if matches!(idx % 16, 9 | 10 | 11 | 12) {
				// well-formed pipelines whose numeric arguments sit on and beyond the borders of their types and of the level range
				let src = *rng.pick(&["from_container filename=mem", "from_debug format=pbf", "from_debug format=png"]);
				let zs = ["0", "1", "2", "3", "4", "29", "30", "31", "32", "33", "34", "40", "63", "64", "127", "128", "200", "254", "255", "256", "-1", "1e1", "3.5"];
				let fs = ["0", "-0", "1", "-1", "10", "85.05112877980659", "-85.05112877980659", "85.06", "-85.06", "90", "-90", "91", "179.999999", "180", "-180", "180.0000001", "-181", "360", "-360", "1e9", "-1e9", "1e300", "-1e300", "1e-300", "5e-324"];
				let text = match idx % 16 {
					9 => format!("{src} | filter_zoom max={}", rng.pick(&zs)),
					10 => format!("{src} | filter_zoom min={}", rng.pick(&zs)),
					11 => format!("{src} | filter_zoom min={} max={}", rng.pick(&zs), rng.pick(&zs)),
					_ => format!("{src} | filter_bbox bbox=[{},{},{},{}]{}", rng.pick(&fs), rng.pick(&fs), rng.pick(&fs), rng.pick(&fs), if rng.chance(1, 3) { format!(" | filter_zoom min={} max={}", rng.pick(&zs), rng.pick(&zs)) } else { String::new() }),
				};
				return Case { bytes: text.into_bytes(), how: "argument at / beyond a type or level border".into(), coords: vec![] };
			}
			let s = *rng.pick(&VPLS); if idx % 5 == 0 { Case { bytes: s.as_bytes().to_vec(), how: "valid".into(), coords: vec![] } } else { Case { bytes: mutate_text(rng, s), how: "mutated text".into(), coords: vec![] } }
		}
		"mvt" if idx % 6 == 2 => { // a length field that announces far more than the tile holds
			let t = crate::mvt::gen_tile_pub(rng); let mut b = crate::mvt::enc_tile(&t);
			let ks: Vec<usize> = (0..b.len().saturating_sub(1)).filter(|i| matches!(b[*i], 0x0a | 0x12 | 0x1a | 0x22)).collect();
			if let Some(k) = ks.get(rng.below(ks.len().max(1) as u64) as usize) { let bigs: [Vec<u8>; 5] = [vec![0xff, 0xff, 0xff, 0xff, 0x0f], vec![0xff, 0xff, 0xff, 0xff, 0xff, 0xff, 0xff, 0xff, 0x7f], vec![0x80, 0x80, 0x80, 0x80, 0x40], vec![0xff, 0xff, 0xff, 0xff, 0xff, 0xff, 0xff, 0xff, 0xff, 0x01], vec![0xfe, 0xff, 0xff, 0xff, 0xff, 0xff, 0xff, 0xff, 0xff, 0x01]]; let big = rng.pick(&bigs).clone(); b.splice(k + 1..k + 2, big.iter().cloned()); }
			Case { bytes: b, how: "huge length field".into(), coords: vec![] } }
		"mvt" if idx % 6 == 3 => { // structurally sound tile whose tag ids do not fit its tables (odd count, index beyond the key or value table)
			let mut t = crate::mvt::gen_tile_pub(rng);
			for l in t.iter_mut() { let (nk, nv) = (l.keys.len() as u32, l.vals.len() as u32); for f in l.feats.iter_mut() { match rng.below(5) {
				0 => f.tags.push(0), 1 => { f.tags.push(nk + rng.below(3) as u32); f.tags.push(0); } 2 => { f.tags.push(0); f.tags.push(nv + rng.below(3) as u32); } 3 => { f.tags = vec![u32::MAX, u32::MAX]; } _ => {} } } }
			Case { bytes: crate::mvt::enc_tile(&t), how: "tag ids outside the layer's tables".into(), coords: vec![] } }
		"mvt" => { let t = crate::mvt::gen_tile_pub(rng); let b = crate::mvt::enc_tile(&t); if idx % 6 == 0 { Case { bytes: b, how: "valid".into(), coords: vec![] } } else if idx % 6 == 1 { Case { bytes: { let n = rng.below(60) as usize; rng.bytes(n) }, how: "random bytes".into(), coords: vec![] } } else { Case { bytes: mutate_bytes(rng, b), how: "mutated".into(), coords: vec![] } } }
		"versatiles" => {
			let tiles = small_tiles(rng);
			let valid = if rng.chance(1, 2) { indep::enc_versatiles(&tiles, 0x10, 0, b"{}", rng) } else { written_by_repo(rt, &tiles, "versatiles", dir).and_then(|p| Ok(std::fs::read(p)?)).unwrap_or_default() };
			let coords = coords_of(&tiles);
			match idx % 4 { 0 => Case { bytes: valid, how: "valid".into(), coords }, 1 => Case { bytes: mutate_bytes(rng, valid), how: "mutated file bytes".into(), coords }, _ => match corrupt_versatiles_inner(rng, &valid) { Some(b) => Case { bytes: b, how: "mutated block/tile index behind the brotli layer".into(), coords }, None => Case { bytes: mutate_bytes(rng, valid), how: "mutated file bytes".into(), coords } } }
		}
		"pmtiles" => {
			match idx % 4 {
				0 => Case { bytes: corrupt_pmtiles_dirs(rng), how: "hand-made directory".into(), coords: vec![] },
				_ => { let tiles = small_tiles(rng); let valid = if rng.chance(2, 3) { indep::enc_pmtiles(&tiles, 2, 1, b"{}", rng).0 } else { written_by_repo(rt, &tiles, "pmtiles", dir).and_then(|p| Ok(std::fs::read(p)?)).unwrap_or_default() };
					let coords = coords_of(&tiles);
					if idx % 4 == 1 { Case { bytes: valid, how: "valid".into(), coords } } else { Case { bytes: mutate_bytes(rng, valid), how: "mutated file bytes".into(), coords } } }
			}
		}
		"mbtiles" => { let p = dir.join("case.mbtiles");
			if idx % 3 == 0 { let _ = weird_mbtiles(rng, &p); Case { bytes: std::fs::read(&p).unwrap_or_default(), how: "well-formed SQLite file with unusual content".into(), coords: vec![] } }
			else { let tiles = small_tiles(rng); let _ = indep::enc_mbtiles(&p, &tiles, "png", rng); let b = std::fs::read(&p).unwrap_or_default(); if idx % 3 == 1 { Case { bytes: b, how: "valid".into(), coords: vec![] } } else { Case { bytes: mutate_bytes(rng, b), how: "mutated file bytes".into(), coords: vec![] } } } }
		"tar" => { if idx % 3 == 0 { Case { bytes: weird_tar(rng), how: "well-formed tar with unusual member names".into(), coords: vec![] } } else { let tiles = small_tiles(rng); let b = indep::enc_tar(&tiles, ".png", b"{}", rng); if idx % 3 == 1 { Case { bytes: b, how: "valid".into(), coords: vec![] } } else { Case { bytes: mutate_bytes(rng, b), how: "mutated file bytes".into(), coords: vec![] } } } }
		_ => Case { bytes: vec![(idx % 256) as u8, rng.next() as u8], how: "directory tree variant".into(), coords: vec![] },
	}
}

fn probes() -> Vec<TileCoord3> { let mut v = vec![]; for (z, x, y) in [(0u8, 0u32, 0u32), (1, 1, 1), (3, 1, 2), (5, 31, 31), (12, 5, 5), (2, 9, 9), (31, 0, 0)] { v.push(TileCoord3 { x, y, z }); } for id in 18..28 { let (z, x, y) = indep::id_tile(id); v.push(TileCoord3 { x, y, z }); } v }

/// single-tile lookups (they return Result) through the vector-tile operators with the bytes as a source tile
fn mvt_through_pipelines(b: &[u8], rt: &tokio::runtime::Runtime, dir: &std::path::Path) {
	let csv = dir.join("data.csv"); std::fs::write(&csv, CSVS[0]).unwrap();
	let mut rng = Rng::new(7); let good = crate::mvt::enc_tile(&crate::mvt::gen_tile_pub(&mut rng));
	for (k, text) in [VPLS[5].replace("DATA", csv.to_str().unwrap()), format!("{} remove_non_matching=true", VPLS[5].replace("DATA", csv.to_str().unwrap())), "from_vectortiles_merged [ from_container filename=mem, from_container filename=mem2 ]".to_string(), "from_vectortiles_merged [ from_container filename=mem2, from_container filename=mem ]".to_string()].iter().enumerate() {
		crate::memsrc::register("mem", Box::new(MemSource::new("mem", vec![((3, 1, 2), b.to_vec())], TileFormat::PBF, TileCompression::Uncompressed)));
		if k >= 2 { crate::memsrc::register("mem2", Box::new(MemSource::new("mem2", vec![((3, 1, 2), good.clone())], TileFormat::PBF, TileCompression::Uncompressed))); }
		let r = rt.block_on(async { crate::memsrc::factory().operation_from_vpl(text).await });
		if let Ok(op) = &r { let _ = rt.block_on(op.get_tile_data(&TileCoord3 { x: 1, y: 2, z: 3 })); }
		let _ = crate::memsrc::take("mem"); let _ = crate::memsrc::take("mem2");
	}
}

/// runs the decoder(s) of `target` on the case: "ok" / "err" (panics unwind to the caller)
fn execute(target: &str, case: &Case, rt: &tokio::runtime::Runtime, dir: &std::path::Path) -> &'static str {
	let b = &case.bytes;
	let lookups = |r: &dyn TilesReaderTrait| { let _ = r.get_parameters(); let _ = r.get_tilejson(); for c in probes() { let _ = rt.block_on(r.get_tile_data(&c)); } for (z, x, y) in &case.coords { let _ = rt.block_on(r.get_tile_data(&TileCoord3 { x: *x, y: *y, z: *z })); } };
	match target {
		"json" => match std::str::from_utf8(b) { Ok(s) => if versatiles_core::json::parse_json_str(s).is_ok() { "ok" } else { "err" }, Err(_) => "err" },
		"tilejson" => { let _ = versatiles_core::tilejson::TileJSON::try_from_blob_or_default(&Blob::from(b.clone())); "ok" }
		"csv" => { match versatiles_core::utils::read_csv_iter(std::io::Cursor::new(b.clone()), b',') { Ok(it) => { let mut ok = true; for r in it { if r.is_err() { ok = false; } } if ok { "ok" } else { "err" } } Err(_) => "err" } }
		"csvfile" | "vpl" => {
			// building a pipeline from arguments; the CSV goes through the loader of vectortiles_update_properties
			let csv = dir.join("data.csv");
			let text = if target == "csvfile" { std::fs::write(&csv, b).unwrap(); VPLS[5].to_string() } else { std::fs::write(&csv, CSVS[0]).unwrap(); match std::str::from_utf8(b) { Ok(s) => s.to_string(), Err(_) => return "err" } };
			let text = text.replace("DATA", csv.to_str().unwrap());
			let mut rng = Rng::new(7); let t = crate::mvt::gen_tile_pub(&mut rng);
			crate::memsrc::register("mem", Box::new(MemSource::new("mem", vec![((3, 1, 2), crate::mvt::enc_tile(&t))], TileFormat::PBF, TileCompression::Uncompressed)));
			let r = rt.block_on(async { crate::memsrc::factory().operation_from_vpl(&text).await });
			// a pipeline that was built is also asked for its parameters, single tiles and a stream
			if let Ok(op) = &r {
				let _ = op.get_parameters(); let _ = op.get_tilejson();
				for c in [TileCoord3 { x: 1, y: 2, z: 3 }, TileCoord3 { x: 0, y: 0, z: 0 }, TileCoord3 { x: 0, y: 0, z: 31 }] { let _ = rt.block_on(op.get_tile_data(&c)); }
				if let Ok(bb) = versatiles_core::types::TileBBox::new(3, 0, 0, 7, 7) { rt.block_on(async { let mut n = 0; let mut st = op.get_tile_stream(bb).await; while let Some(_) = st.next().await { n += 1; if n > 200 { break; } } }); }
			}
			let _ = crate::memsrc::take("mem");
			if r.is_ok() { "ok" } else { "err" }
		}
		"mvt" => { mvt_through_pipelines(b, rt, dir); match versatiles_geometry::vector_tile::VectorTile::from_blob(&Blob::from(b.clone())) { Ok(mut t) => { for l in &t.layers { let _ = l.to_features(); for f in &l.features { let _ = l.decode_tag_ids(&f.tag_ids); } } let _ = t.to_blob();
			// the property-rewriting entry points (they return Result) used by vectortiles_update_properties and the merge
			for l in t.layers.iter_mut() { let _ = l.filter_map_properties(|p| Some(p)); }
			if let Ok(mut t2) = versatiles_geometry::vector_tile::VectorTile::from_blob(&Blob::from(b.clone())) { for l in t2.layers.iter_mut() { let _ = l.map_properties(|p| p); } }
			let _ = t.to_blob(); "ok" } Err(_) => "err" } },
		"versatiles" => match rt.block_on(VersaTilesReader::open_reader(Box::new(DataReaderBlob::from(b.clone())))) { Ok(r) => { lookups(&r); "ok" } Err(_) => "err" },
		"pmtiles" => match rt.block_on(PMTilesReader::open_reader(Box::new(DataReaderBlob::from(b.clone())))) { Ok(r) => { lookups(&r); "ok" } Err(_) => "err" },
		"mbtiles" | "tar" => { let p = dir.join(format!("open.{target}")); std::fs::write(&p, b).unwrap(); match rt.block_on(get_reader(p.to_str().unwrap())) { Ok(r) => { lookups(r.as_ref()); "ok" } Err(_) => "err" } }
		_ => {
			let p = dir.join("open_dir"); let _ = std::fs::remove_dir_all(&p);
			let v = b[0] % 10;
			let files: Vec<(&str, &[u8])> = match v { 0 => vec![("1/2/3.png", b"x")], 1 => vec![("1/2/3.png", b"x"), ("1/2/4.pbf", b"y")], 2 => vec![("a/b/c.png", b"x")], 3 => vec![("1/2/3.png.gz", b"x"), ("1/2/4.png", b"y")], 4 => vec![("1/2/x.png", b"x")], 5 => vec![("300/1/1.png", b"x")], 6 => vec![("tiles.json", b"{\"a\":"), ("1/1/1.png", b"x")], 7 => vec![("1/2", b"x")], 8 => vec![], _ => vec![("1/2/3", b"x"), ("2/9/9.png", b"z")] };
			std::fs::create_dir_all(&p).unwrap();
			if b[1] % 4 == 0 { // a non-UTF-8 file name / directory name (legal on Linux)
				use std::os::unix::ffi::OsStrExt; let d = p.join("9").join("9"); std::fs::create_dir_all(&d).unwrap();
				let _ = std::fs::write(d.join(std::ffi::OsStr::from_bytes(b"\xff\xfe.png")), b"x"); if b[1] % 8 == 0 { let _ = std::fs::create_dir_all(p.join(std::ffi::OsStr::from_bytes(b"\xff"))); } }
			for (n, d) in files { let f = p.join(n); std::fs::create_dir_all(f.parent().unwrap()).unwrap(); std::fs::write(f, d).unwrap(); }
			if b[1] % 3 != 0 { let mut r2 = Rng::new(b[0] as u64 * 256 + b[1] as u64); for _ in 0..r2.range(1, 3) { let f = p.join(tricky_name(&mut r2)); let _ = std::fs::create_dir_all(f.parent().unwrap()); let _ = std::fs::write(f, b"x"); } }
			match rt.block_on(get_reader(p.to_str().unwrap())) { Ok(r) => { lookups(r.as_ref()); "ok" } Err(_) => "err" }
		}
	}
}

fn describe(target: &str, case: &Case) -> String {
	let shown = if matches!(target, "json" | "tilejson" | "csv" | "csvfile" | "vpl") { format!("text {:?}", String::from_utf8_lossy(&case.bytes[..case.bytes.len().min(300)])) } else { format!("{} bytes, hex {}{}", case.bytes.len(), hex(&case.bytes[..case.bytes.len().min(160)]), if case.bytes.len() > 160 { "..." } else { "" }) };
	format!("{target} #{} ({}): {shown}", "", case.how).replace(" # ", " ")
}

/// child: cases [from, to) of one target
pub fn child(target: &str, seed: u64, from: u64, to: u64, out: &std::path::Path) -> Result<()> {
	let rt = tokio::runtime::Builder::new_current_thread().enable_all().build()?;
	let dir = out.join(format!("c19work_{target}")); std::fs::create_dir_all(&dir)?;
	let mut res = std::fs::OpenOptions::new().create(true).append(true).open(out.join(format!("c19_{target}.results")))?;
	let progress = out.join(format!("c19_{target}.progress"));
	for idx in from..to {
		std::fs::write(&progress, idx.to_string())?;
		let case = gen_case(target, seed, idx, &rt, &dir);
		let r = guarded(|| execute(target, &case, &rt, &dir));
		match r {
			Ok(o) => writeln!(res, "{idx}\t{o}\t{}\t", case.how)?,
			Err(m) => writeln!(res, "{idx}\tpanic\t{}\t{}", case.how, jstr(&format!("{} => panicked: {}", describe(target, &case), m.chars().take(300).collect::<String>())))?,
		}
	}
	std::fs::write(&progress, "done")?;
	Ok(())
}

pub fn run(ctx: &Ctx) -> Result<()> {
	let mut col = Collector::new(&ctx.out)?;
	let exe = std::env::current_exe()?;
	let n: u64 = if ctx.thorough { 6000 } else { 400 };
	let only = ctx.replay.as_ref().and_then(|p| std::fs::read_to_string(p).ok()).map(|s| s.trim().to_string()).filter(|s| !s.is_empty());
	for target in TARGETS {
		let (mut from, mut to) = (0u64, n);
		if let Some(o) = &only { let p: Vec<&str> = o.split_whitespace().collect(); if p.len() >= 2 && p[0] == target { from = p[1].parse().unwrap_or(0); to = from + 1; } else { continue; } }
		let _ = std::fs::remove_file(ctx.out.join(format!("c19_{target}.results")));
		let mut restarts = 0;
		let batch: u64 = if target == "mbtiles" { 15 } else { u64::MAX };
		let to_all = to;
		while from < to_all && restarts < 400 {
			let to = to_all.min(from.saturating_add(batch));
			let mut ch = std::process::Command::new("sh").arg("-c").arg(format!("ulimit -v 6000000; ulimit -s 8192; exec \"$0\" c19child --seed {} --out \"$1\" --replay \"{target} {from} {to}\"", ctx.seed)).arg(&exe).arg(&ctx.out).spawn()?;
			// watchdog: a case that makes no progress for 40 s is abandoned (counted as slow, not as a violation)
			let pfile = ctx.out.join(format!("c19_{target}.progress"));
			let (mut last, mut since) = (String::new(), std::time::Instant::now());
			let mut slow = false;
			let st = loop {
				if let Some(st) = ch.try_wait()? { break st; }
				std::thread::sleep(std::time::Duration::from_millis(100));
				let cur = std::fs::read_to_string(&pfile).unwrap_or_default();
				if cur != last { last = cur; since = std::time::Instant::now(); }
				else if since.elapsed().as_secs() > 40 { let _ = ch.kill(); slow = true; break ch.wait()?; }
			};
			if slow { let idx: u64 = last.trim().parse().unwrap_or(from); col.bump(&format!("slow_{target}"), 1); from = idx + 1; restarts += 1; continue; }
			let prog = std::fs::read_to_string(&pfile).unwrap_or_default();
			if st.success() && prog == "done" { from = to; continue; }
			// the child died while running the case it had announced; the case counts only if it also
			// brings a fresh process down on its own (resource exhaustion accumulated over many cases does not)
			let idx: u64 = prog.trim().parse().unwrap_or(from);
			let alone = std::process::Command::new("sh").arg("-c").arg(format!("ulimit -v 6000000; ulimit -s 8192; exec \"$0\" c19child --seed {} --out \"$1\" --replay \"{target} {idx} {}\"", ctx.seed, idx + 1)).arg(&exe).arg(&ctx.out).status()?;
			if alone.success() { col.bump(&format!("unconfirmed_abort_{target}"), 1); from = idx + 1; restarts += 1; continue; }
			let rt = tokio::runtime::Builder::new_current_thread().enable_all().build()?;
			let dir = ctx.out.join(format!("c19work_{target}")); std::fs::create_dir_all(&dir)?;
			let case = gen_case(target, ctx.seed, idx, &rt, &dir);
			col.violation("process-down", &format!("{target} {idx}"), &format!("{target} {idx}"), &format!("{} => the decoding process ended with {alone} (stack overflow, failed allocation or abort)", describe(target, &case)));
			col.bump(&format!("aborts_{target}"), 1);
			from = idx + 1; restarts += 1;
		}
		// collect
		let txt = std::fs::read_to_string(ctx.out.join(format!("c19_{target}.results"))).unwrap_or_default();
		for l in txt.lines() { let p: Vec<&str> = l.splitn(4, '\t').collect(); if p.len() < 3 { continue; }
			col.spec_cases += 1; col.bump(&format!("{target}_{}", p[1]), 1); col.bump(&format!("how_{}", p[2].split(' ').next().unwrap_or("")), 1);
			if p[1] == "panic" {
				// a panic counts only if the case also panics alone in a fresh process (thread / address-space
				// exhaustion accumulated over hundreds of opened SQLite pools in one child is not the input's doing)
				let idx: u64 = p[0].parse().unwrap_or(0);
				let conf = ctx.out.join("c19_confirm"); let _ = std::fs::remove_dir_all(&conf); std::fs::create_dir_all(&conf)?;
				let _ = std::process::Command::new("sh").arg("-c").arg(format!("ulimit -v 6000000; ulimit -s 8192; exec \"$0\" c19child --seed {} --out \"$1\" --replay \"{target} {idx} {}\"", ctx.seed, idx + 1)).arg(&exe).arg(&conf).status()?;
				let again = std::fs::read_to_string(conf.join(format!("c19_{target}.results"))).unwrap_or_default();
				let _ = std::fs::remove_dir_all(&conf);
				if again.split('\t').nth(1) != Some("panic") { col.bump(&format!("unconfirmed_panic_{target}"), 1); continue; }
				let d = p.get(3).map(|s| s.trim_matches('"').replace("\\\"", "\"")).unwrap_or_default(); col.violation("panic", &format!("{target} {}", p[0]), &format!("{target} {}", p[0]), &d); } }
		let _ = std::fs::remove_dir_all(ctx.out.join(format!("c19work_{target}")));
	}
	// correspondence with the Coq decoders on malformed input: outcome class of the JSON parser, the
	// PMTiles directory parser and the directory search (the theorems of Props/C19.v are about these)
	if only.is_none() {
		let mut rng = Rng::new(ctx.seed ^ 0x19AA);
		let cps = |s: &str| if s.is_empty() { "-".to_string() } else { s.chars().map(|c| (c as u32).to_string()).collect::<Vec<_>>().join(",") };
		for i in 0..(if ctx.thorough { 6000 } else { 600 }) {
			let base = *rng.pick(&JSONS);
			let bytes = if i % 7 == 0 { base.as_bytes().to_vec() } else { mutate_text(&mut rng, base) };
			if let Ok(t) = String::from_utf8(bytes) {
				if t.len() > 300 { continue; }
				let r = guarded(|| versatiles_core::json::parse_json_str(&t));
				col.out.line(&format!("json.cls {} => {}", cps(&t), match r { Ok(Ok(_)) => "ok", Ok(Err(_)) => "err", Err(_) => "panic" }));
			}
		}
		for i in 0..(if ctx.thorough { 8000 } else { 800 }) {
			let base = *rng.pick(&CSVS);
			let bytes = if i % 9 == 0 { base.as_bytes().to_vec() } else { mutate_text(&mut rng, base) };
			if bytes.len() > 200 { continue; }
			let r = guarded(|| { let mut rows: Vec<Vec<String>> = vec![]; let mut st = "ok";
				match versatiles_core::utils::read_csv_iter(std::io::Cursor::new(bytes.clone()), b',') { Ok(it) => { for item in it { match item { Ok((f, _, _)) => rows.push(f), Err(_) => { st = "err"; break; } } } } Err(_) => st = "err" }
				(rows, st) });
			let hx = |s: &str| if s.is_empty() { "-".to_string() } else { hex(s.as_bytes()) };
			let txt = match r { Ok((rows, st)) => { let t = rows.iter().map(|f| f.iter().map(|x| hx(x)).collect::<Vec<_>>().join(";")).collect::<Vec<_>>().join("|"); format!("{} {st}", if t.is_empty() { ".".into() } else { t }) } Err(_) => "panic".into() };
			col.out.line(&format!("csv {} => {}", if bytes.is_empty() { "-".into() } else { hex(&bytes) }, txt));
		}
		crate::pmcorr::malformed_lines(&mut col, &mut rng, if ctx.thorough { 3000 } else { 300 });
		// sub-reader requests (length-delimited fields) at and beyond the data length and the u64 range
		{
			use versatiles_core::io::{ValueReader, ValueReaderSlice};
			let data = vec![7u8; 300];
			let lens: [u64; 12] = [0, 1, 99, 100, 101, 299, 300, 301, u32::MAX as u64, 1 << 63, u64::MAX - 5, u64::MAX];
			for start in [0u64, 1, 5, 200, 299] { for &len in &lens {
				let r = guarded(|| { let mut rd = ValueReaderSlice::new_le(&data); rd.set_position(start).unwrap(); rd.get_sub_reader(len).map(|s| s.len()) });
				let txt = match &r { Ok(Ok(l)) => format!("ok:{start}-{}", start + l), Ok(Err(_)) => "err".into(), Err(m) if m.contains("overflow") => "overflow".into(), Err(_) => "panic".into() };
				col.out.line(&format!("subreader {start} {len} 300 => {txt}"));
			} }
		}
	}
	col.finish()
}
