//! C05 / C07 / C17(tiles.json): raw HTTP/1.1 exchanges with the built `versatiles serve` binary.
use crate::c04_recompress::indep_decode;
use crate::memsrc::MemSource;
use crate::util::*;
use crate::Ctx;
use anyhow::{anyhow, Result};
use std::collections::HashMap;
use std::io::{Read, Write};
use std::net::TcpStream;
use std::process::{Child, Command, Stdio};
use std::time::Duration;
use versatiles_container::write_to_filename;
use versatiles_core::types::*;
use versatiles_core::utils::compress;

pub struct Server { child: Child, pub port: u16 }
impl Drop for Server { fn drop(&mut self) { let _ = self.child.kill(); let _ = self.child.wait(); } }

fn free_port() -> u16 { std::net::TcpListener::bind("127.0.0.1:0").unwrap().local_addr().unwrap().port() }

pub fn start_server(args: &[String]) -> Result<Server> {
	let bin = std::env::var("VERIF_BIN").map_err(|_| anyhow!("VERIF_BIN not set"))?;
	for _ in 0..5 {
		let port = free_port();
		let mut cmd = Command::new(&bin);
		cmd.arg("serve").arg("-i").arg("127.0.0.1").arg("-p").arg(port.to_string());
		for a in args { cmd.arg(a); }
		let child = cmd.stdout(Stdio::null()).stderr(Stdio::null()).spawn()?;
		let mut s = Server { child, port };
		for _ in 0..200 {
			if TcpStream::connect(("127.0.0.1", port)).is_ok() { return Ok(s); }
			if let Ok(Some(_)) = s.child.try_wait() { break; }
			std::thread::sleep(Duration::from_millis(25));
		}
	}
	Err(anyhow!("server did not start"))
}

pub struct Resp { pub status: u16, pub headers: HashMap<String, String>, pub body: Vec<u8> }

/// one raw request; None = no complete HTTP response (dropped connection)
pub fn raw_get(port: u16, target: &str, extra_headers: &[(&str, &str)]) -> Option<Resp> { raw_get_bytes(port, target.as_bytes(), extra_headers) }
/// the request target is sent byte for byte (it need not be UTF-8)
pub fn raw_get_bytes(port: u16, target: &[u8], extra_headers: &[(&str, &str)]) -> Option<Resp> {
	let mut s = TcpStream::connect(("127.0.0.1", port)).ok()?;
	s.set_read_timeout(Some(Duration::from_secs(10))).ok()?;
	let mut req: Vec<u8> = b"GET ".to_vec(); req.extend_from_slice(target); req.extend_from_slice(b" HTTP/1.1\r\nHost: localhost\r\nConnection: close\r\n");
	for (k, v) in extra_headers { req.extend_from_slice(format!("{k}: {v}\r\n").as_bytes()); }
	req.extend_from_slice(b"\r\n");
	s.write_all(&req).ok()?;
	let mut buf = Vec::new();
	let _ = s.read_to_end(&mut buf);
	let pos = buf.windows(4).position(|w| w == b"\r\n\r\n")?;
	let head = String::from_utf8_lossy(&buf[..pos]).to_string();
	let mut lines = head.split("\r\n");
	let status: u16 = lines.next()?.split(' ').nth(1)?.parse().ok()?;
	let mut headers = HashMap::new();
	for l in lines { if let Some((k, v)) = l.split_once(':') { headers.insert(k.trim().to_ascii_lowercase(), v.trim().to_string()); } }
	let mut body = buf[pos + 4..].to_vec();
	if headers.get("transfer-encoding").map(|v| v.contains("chunked")).unwrap_or(false) {
		let mut out = Vec::new(); let mut i = 0;
		loop {
			let e = body[i..].windows(2).position(|w| w == b"\r\n")? + i;
			let n = usize::from_str_radix(String::from_utf8_lossy(&body[i..e]).trim(), 16).ok()?;
			if n == 0 { break; }
			out.extend_from_slice(body.get(e + 2..e + 2 + n)?); i = e + 2 + n + 2;
		}
		body = out;
	} else if let Some(cl) = headers.get("content-length").and_then(|v| v.parse::<usize>().ok()) {
		if body.len() < cl { return None; }
		body.truncate(cl);
	}
	Some(Resp { status, headers, body })
}

fn enc_of(r: &Resp) -> Option<TileCompression> {
	match r.headers.get("content-encoding").map(|s| s.as_str()) { None => Some(TileCompression::Uncompressed), Some("gzip") => Some(TileCompression::Gzip), Some("br") => Some(TileCompression::Brotli), _ => None }
}

const TOKENS: [&str; 5] = ["gzip", "br", "deflate", "identity", "zstd"];
fn ordered_subsets() -> Vec<Vec<&'static str>> {
	fn go(cur: &mut Vec<&'static str>, out: &mut Vec<Vec<&'static str>>) {
		out.push(cur.clone());
		for t in TOKENS { if !cur.contains(&t) { cur.push(t); go(cur, out); cur.pop(); } }
	}
	let mut out = Vec::new(); go(&mut Vec::new(), &mut out); out
}

// ------------------------------------------------------------------------------------------
pub fn run_c05(ctx: &Ctx) -> Result<()> {
	let mut col = Collector::new(&ctx.out)?;
	let rt = tokio::runtime::Builder::new_multi_thread().worker_threads(2).enable_all().build()?;
	let dir = std::fs::canonicalize(&ctx.out)?.join("srv"); std::fs::create_dir_all(&dir)?;
	let mut rng = Rng::new(ctx.seed ^ 0x05);
	// sources: 3 stored compressions x raster/vector
	let mut tiles: HashMap<(u8, u32, u32), Vec<u8>> = HashMap::new();
	for z in 0..=3u8 { let m = (1u32 << z) - 1; for x in 0..=m { for y in 0..=m { if (x + 2 * y + z as u32) % 3 != 0 { tiles.insert((z, x, y), { let mut v = format!("payload {z}/{x}/{y} ").into_bytes(); v.extend(vec![b'a'; 300]); v.extend(rng.bytes(40)); v }); } } } }
	tiles.insert((9, 255, 256), b"block border tile".to_vec());
	let comps = [TileCompression::Uncompressed, TileCompression::Gzip, TileCompression::Brotli];
	let mut ids: Vec<(String, TileFormat, TileCompression)> = Vec::new();
	let mut args: Vec<String> = Vec::new();
	for (fi, f) in [TileFormat::PNG, TileFormat::PBF].iter().enumerate() { for c in &comps {
		let id = format!("s{fi}{}", match c { TileCompression::Uncompressed => "u", TileCompression::Gzip => "g", TileCompression::Brotli => "b" });
		let stored = tiles.iter().map(|(k, v)| (*k, compress(Blob::from(v.clone()), c).unwrap().into_vec())).collect();
		let mut src = MemSource::new(&id, stored, *f, *c);
		let path = dir.join(format!("{id}.versatiles"));
		rt.block_on(write_to_filename(&mut src, path.to_str().unwrap()))?;
		args.push(format!("[{id}]{}", path.to_str().unwrap()));
		ids.push((id, *f, *c));
	} }
	// the other container formats (pbf + gzip is accepted by all of them)
	for ext in ["mbtiles", "pmtiles", "tar"] {
		let id = format!("c{ext}");
		let c = TileCompression::Gzip;
		let stored = tiles.iter().map(|(k, v)| (*k, compress(Blob::from(v.clone()), &c).unwrap().into_vec())).collect();
		let mut src = MemSource::new(&id, stored, TileFormat::PBF, c);
		let path = dir.join(format!("{id}.{ext}"));
		rt.block_on(write_to_filename(&mut src, path.to_str().unwrap()))?;
		args.push(format!("[{id}]{}", path.to_str().unwrap()));
		ids.push((id, TileFormat::PBF, c));
	}
	// a source that has a tile everywhere (for the path-parsing lines compared with the model)
	std::fs::write(dir.join("all.vpl"), "from_debug format=pbf")?;
	args.push(format!("[all]{}", dir.join("all.vpl").to_str().unwrap()));

	let modes: Vec<Vec<String>> = if ctx.thorough { vec![vec![], vec!["--fast".into()]] } else { vec![if ctx.seed % 2 == 0 { vec!["--fast".into()] } else { vec![] }] };
	let subsets = ordered_subsets();
	for mode in modes {
		let mut a = args.clone(); a.extend(mode.clone());
		let srv = start_server(&a)?;
		let fast = !mode.is_empty();
		// (1) path parsing vs the model, on the everywhere-defined source
		let mut paths: Vec<String> = vec!["", "/", "//", "1", "1/2", "1/1/1", "0/0/0", "3/7/7", "3/8/8", "31/0/0", "32/0/0", "255/0/0", "256/0/0", "-1/0/0", "+1/+0/+1", "01/001/01",
			"1/1/1.pbf", "1/1/1.png.gz", "1/1/1abc", "1/1/abc", "1/x/1", "z/1/1", "1/1/", "1//1/1", "1/1/1/9/9", "1.0/1/1", "1/1e0/1", "1/4294967295/0", "1/4294967296/0", "1/1/4294967296",
			"meta.json", "tiles.json", "tiles.json/x", "other.json", "1/1/ 1", "1/ 1/1", "1/1/+1", "1/1/-1", "20/1048575/1048575", "3/1/99",
			// non-ASCII characters sent as raw UTF-8 (no percent-decoding happens): digits of other scripts (Nd), letter and other
			// numbers (Nl, No), which char::is_numeric accepts and str::parse does not; letters; 2-, 3- and 4-byte sequences
			"1/0/\u{663}.pbf", "1/0/1\u{663}", "1/0/1\u{663}.pbf", "1/0/\u{b2}", "1/0/1\u{b2}.pbf", "1/0/\u{967}.pbf", "1/0/1\u{967}2.pbf", "1/0/\u{ff11}", "1/0/1\u{2167}.png",
			"1/0/\u{bd}", "1/0/\u{1d7d9}", "1/0/1\u{1d7d9}.pbf", "1/0/\u{e9}", "1/0/1\u{e9}", "1/0/1.\u{663}", "1/0/1\u{1f600}", "1/\u{663}/0", "\u{663}/0/0", "1\u{663}/0/0", "1/1\u{b2}/1",
			"\u{663}", "\u{663}/\u{663}", "meta.json\u{663}", "1/0/\u{663}\u{664}\u{665}", "1/0/12345678901\u{663}", "1/0/\u{3007}", "1/0/1\u{3007}.pbf", "2/3/3\u{0}"].iter().map(|s| s.to_string()).collect();
		for _ in 0..(if ctx.thorough { 400 } else { 80 }) {
			let part = |rng: &mut Rng| -> String { match rng.below(10) { 8 => format!("{}{}", rng.below(3), ['\u{663}', '\u{b2}', '\u{967}', '\u{ff11}', '\u{e9}', '\u{1d7d9}', '\u{2167}'][rng.below(7) as usize]), 9 => format!("{}{}", ['\u{664}', '\u{b3}', '\u{4e09}', '\u{bc}'][rng.below(4) as usize], rng.below(3)), 0 => "".into(), 1 => rng.below(40).to_string(), 2 => format!("{}x", rng.below(9)), 3 => "+3".into(), 4 => "a".into(), 5 => "007".into(), 6 => rng.below(300).to_string(), _ => rng.below(4).to_string() } };
			let n = rng.range(0, 5); paths.push((0..n).map(|_| part(&mut rng)).collect::<Vec<_>>().join("/"));
		}
		for p in &paths {
			if p.contains(' ') || p.contains('\0') { continue; } // not a valid request target; hyper answers 400 itself
			let r = raw_get(srv.port, &format!("/tiles/all/{p}"), &[]);
			let txt = match &r { None => "dropped".to_string(), Some(r) => r.status.to_string() };
			// the non-ASCII scalar values of the path that std's char::is_numeric accepts (the model's `numeric` parameter)
			let mut nums: Vec<u32> = p.chars().filter(|c| !c.is_ascii() && c.is_numeric()).map(|c| c as u32).collect(); nums.sort(); nums.dedup();
			let numarg = if nums.is_empty() { String::new() } else { format!(" {}", nums.iter().map(|n| n.to_string()).collect::<Vec<_>>().join(",")) };
			col.out.line(&format!("tilepath /{p}{numarg} => {txt}"));
			if r.is_none() { col.violation("dropped-connection", &format!("GET /tiles/all/{p}"), &format!("tilepath /{p}"), "no complete HTTP response"); }
		}
		// (1b) request targets that are not UTF-8 (hyper accepts bytes >= 0x80 in a path): any complete response will do
		for tail in [&b"1/0/\xff"[..], b"1/0/1\xff.pbf", b"1/0/\xd9", b"1/0/1\xd9", b"1/0/\xe0\xa5", b"1/\xff/0", b"\xff/0/0", b"1/0/\xf0\x9d\x9f", b"\xc0\xaf", b"1/0/\xed\xa0\x80", b"1/0/1\x80\x80"] {
			let mut t = b"/tiles/all/".to_vec(); t.extend_from_slice(tail);
			let r = raw_get_bytes(srv.port, &t, &[]);
			if r.is_none() { col.violation("dropped-connection", &format!("GET /tiles/all/{}", hex(tail)), &format!("tilepath-bytes {}", hex(tail)), "no complete HTTP response"); }
			else { col.bump("non-utf8 target answered", 1); }
		}
		// (2) every source: stored / missing / out-of-range coordinates x Accept-Encoding variants
		for (id, f, c) in &ids {
			let mut coords: Vec<(u8, u32, u32)> = vec![(0, 0, 0), (1, 0, 1), (2, 3, 3), (3, 7, 0), (3, 1, 2), (9, 255, 256), (9, 256, 256), (3, 8, 0), (3, 0, 99), (4, 0, 0), (31, 5, 5)];
			for _ in 0..6 { let z = rng.range(0, 3) as u8; let m = (1u32 << z) - 1; coords.push((z, rng.below(m as u64 + 1) as u32, rng.below(m as u64 + 1) as u32)); }
			for (ci, (z, x, y)) in coords.iter().enumerate() {
				let want = tiles.get(&(*z, *x, *y));
				let encs: Vec<Vec<&str>> = if ci < 3 || ctx.thorough { subsets.clone() } else { (0..12).map(|_| subsets[rng.below(subsets.len() as u64) as usize].clone()).collect() };
				for (ei, sub) in encs.iter().enumerate() {
					// header variants: plain list, weights, odd spacing
					let hv = match ei % 3 { 0 => sub.join(", "), 1 => sub.iter().map(|t| format!("{t};q=0.{}", 1 + ei % 9)).collect::<Vec<_>>().join(","), _ => sub.join(" ,  ") };
					let hdr: Vec<(&str, &str)> = if sub.is_empty() && ei % 2 == 0 { vec![] } else { vec![("Accept-Encoding", hv.as_str())] };
					let ext = match ei % 4 { 0 => "", 1 => ".pbf", 2 => ".png", _ => "" };
					let target = format!("/tiles/{id}/{z}/{x}/{y}{ext}");
					let desc = format!("GET {target} Accept-Encoding: {hv:?} mode={}", if fast { "fast" } else { "best" });
					col.spec_cases += 1;
					let r = match raw_get(srv.port, &target, &hdr) { Some(r) => r, None => { col.violation("dropped-connection", &desc, &desc, "no complete HTTP response"); continue; } };
					match want {
						None => if r.status != 404 { col.violation("status", &desc, &desc, &format!("no tile stored there, status {}", r.status)); },
						Some(payload) => {
							if r.status != 200 { col.violation("status", &desc, &desc, &format!("tile is stored, status {}", r.status)); continue; }
							let enc = enc_of(&r);
							let listed = |t: &str| sub.contains(&t);
							match enc {
								None => col.violation("content-encoding", &desc, &desc, &format!("unknown Content-Encoding {:?}", r.headers.get("content-encoding"))),
								Some(e) => {
									let ok_listed = match e { TileCompression::Uncompressed => true, TileCompression::Gzip => listed("gzip"), TileCompression::Brotli => listed("br") };
									if !ok_listed { col.violation("content-encoding", &desc, &desc, &format!("Content-Encoding {e:?} was not listed by the client")); }
									if indep_decode(&e, &r.body).as_deref() != Some(payload.as_slice()) { col.violation("body", &desc, &desc, "body decoded per Content-Encoding differs from the stored tile"); }
								}
							}
							if r.headers.get("content-type").map(|s| s.as_str()) != Some(f.as_mime_str()) { col.violation("content-type", &desc, &desc, &format!("got {:?}, expected {}", r.headers.get("content-type"), f.as_mime_str())); }
							let _ = c;
						}
					}
				}
			}
			// tiles.json is valid JSON carrying the url template
			if let Some(r) = raw_get(srv.port, &format!("/tiles/{id}/tiles.json"), &[]) {
				let body = String::from_utf8_lossy(&r.body).to_string();
				if r.status != 200 || !body.contains(&format!("/tiles/{id}/{{z}}/{{x}}/{{y}}")) || versatiles_core::json::parse_json_str(&body).is_err() {
					col.violation("tiles.json", &format!("GET /tiles/{id}/tiles.json"), "", &format!("status {} body {}", r.status, &body[..body.len().min(200)]));
				}
			} else { col.violation("dropped-connection", &format!("GET /tiles/{id}/tiles.json"), "", "no response"); }
		}
		col.bump(if fast { "mode_fast" } else { "mode_best" }, 1);
	}
	let _ = std::fs::remove_dir_all(&dir);
	col.finish()
}

// ------------------------------------------------------------------------------------------
/// C06: "a server started with the same transform flags exposes the same coordinate mapping as a conversion with them" -
/// the real binary with --flip-y / --swap-xy and several sources (two versatiles files with different, asymmetric
/// coverage and a PMTiles file); every coordinate of levels 0..3 of every source is requested and must carry the
/// payload of the source tile at its pre-image (swap undone first, then flip), 404 where the source has none there
pub fn run_c06_server(ctx: &Ctx, col: &mut Collector) -> Result<()> {
	let rt = tokio::runtime::Builder::new_multi_thread().worker_threads(2).enable_all().build()?;
	let dir = std::fs::canonicalize(&ctx.out)?.join("srv06"); std::fs::create_dir_all(&dir)?;
	let mut rng = Rng::new(ctx.seed ^ 0x06);
	let mut sets: Vec<(String, HashMap<(u8, u32, u32), Vec<u8>>, String)> = Vec::new();
	for (i, ext) in ["versatiles", "versatiles", "pmtiles"].iter().enumerate() {
		let mut tiles = HashMap::new();
		for z in 0..=3u8 { let m = (1u32 << z) - 1; for x in 0..=m { for y in 0..=m {
			// asymmetric coverage, different per source
			let keep = match i { 0 => x <= y + 1 && (x + y) % 4 != 3, 1 => y <= 2 * x && x % 3 != 2, _ => rng.chance(2, 3) };
			if keep { tiles.insert((z, x, y), format!("{{\"src\":{i},\"z\":{z},\"x\":{x},\"y\":{y}}}").into_bytes()); } } } }
		let id = format!("t{i}");
		let path = dir.join(format!("{id}.{ext}"));
		let mut src = MemSource::new(&id, tiles.iter().map(|(k, v)| (*k, v.clone())).collect(), TileFormat::PBF, TileCompression::Uncompressed);
		rt.block_on(write_to_filename(&mut src, path.to_str().unwrap()))?;
		sets.push((id, tiles, path.to_str().unwrap().to_string()));
	}
	for (flip, swap) in [(true, false), (false, true), (true, true), (false, false)] {
		let mut args: Vec<String> = sets.iter().map(|(id, _, p)| format!("[{id}]{p}")).collect();
		if flip { args.push("--flip-y".into()); } if swap { args.push("--swap-xy".into()); }
		let srv = start_server(&args)?;
		for (id, tiles, _) in &sets { for z in 0..=3u8 { let m = (1u32 << z) - 1; for x in 0..=m { for y in 0..=m {
			col.spec_cases += 1;
			let (mut sx, mut sy) = (x, y);
			if swap { std::mem::swap(&mut sx, &mut sy); } if flip { sy = m - sy; }
			let expect = tiles.get(&(z, sx, sy));
			let desc = format!("serve{}{} with sources t0 t1 t2: GET /tiles/{id}/{z}/{x}/{y}", if flip { " --flip-y" } else { "" }, if swap { " --swap-xy" } else { "" });
			match raw_get(srv.port, &format!("/tiles/{id}/{z}/{x}/{y}"), &[("accept-encoding", "identity")]) {
				None => col.violation("server-transform", &desc, &desc, "no complete HTTP response"),
				Some(r) => match (r.status, expect) {
					(200, Some(p)) if &r.body == p => {}
					(404, None) => {}
					(st, _) => col.violation("server-transform", &desc, &desc, &format!("status {st}, body {:?}; a conversion with the same flags has {} at this coordinate (source tile {z}/{sx}/{sy})", String::from_utf8_lossy(&r.body[..r.body.len().min(60)]), expect.map_or("no tile".to_string(), |p| String::from_utf8_lossy(p).to_string()))),
				},
			}
		} } } }
		drop(srv);
	}
	let _ = std::fs::remove_dir_all(&dir);
	Ok(())
}

pub fn run_c07(ctx: &Ctx) -> Result<()> {
	let mut col = Collector::new(&ctx.out)?;
	let base = std::fs::canonicalize(&ctx.out)?.join("c07"); let _ = std::fs::remove_dir_all(&base);
	let root = base.join("www"); let sub = root.join("sub"); let sib = base.join("www-private");
	std::fs::create_dir_all(&sub)?; std::fs::create_dir_all(&sib)?;
	let canary_out = "CANARY-OUTSIDE-ROOT-7f3a"; let canary_sib = "CANARY-SIBLING-91bc";
	std::fs::write(base.join("secret.txt"), canary_out)?; std::fs::write(sib.join("secret.txt"), canary_sib)?;
	// files outside the root that exist in precompressed form only (the server also looks for <name>.br / <name>.gz)
	let canary_pre = "CANARY-PRECOMPRESSED-OUTSIDE-55e1";
	let brz = |t: &str| compress(Blob::from(t.as_bytes().to_vec()), &TileCompression::Brotli).unwrap().into_vec();
	let gzz = |t: &str| compress(Blob::from(t.as_bytes().to_vec()), &TileCompression::Gzip).unwrap().into_vec();
	std::fs::write(base.join("keys.json.br"), brz(&format!("{{\"k\":\"{canary_pre}\"}}")))?; std::fs::write(base.join("keys2.json.gz"), gzz(canary_pre))?;
	std::fs::write(base.join("index.html.br"), brz(&format!("<html>{canary_pre}</html>")))?; std::fs::write(sib.join("only.txt.gz"), gzz(canary_pre))?;
	// ... and one inside the root (positive control)
	std::fs::write(root.join("pre.txt.br"), brz("precompressed inside"))?; std::fs::write(sub.join("pre2.txt.gz"), gzz("precompressed inside"))?;
	std::fs::write(root.join("index.html"), "<html>root index</html>")?;
	std::fs::write(root.join("file.txt"), "inside file")?;
	std::fs::write(sub.join("index.html"), "<html>sub index</html>")?;
	std::fs::write(sub.join("inner.txt"), "inner file")?;
	// a tar root with the same inside files
	let tarp = base.join("site.tar");
	{
		let f = std::fs::File::create(&tarp)?; let mut b = tar::Builder::new(f);
		for (n, d) in [("index.html", "<html>tar index</html>"), ("./file.txt", "tar inside file"), ("sub/inner.txt", "tar inner")] {
			let mut h = tar::Header::new_gnu(); h.set_size(d.len() as u64); h.set_mode(0o644); h.set_cksum();
			b.append_data(&mut h, n, d.as_bytes())?;
		}
		b.finish()?;
	}
	std::fs::write(base.join("all.vpl"), "from_debug format=pbf")?;
	let configs: Vec<(&str, Vec<String>)> = vec![
		("folder", vec!["-s".into(), root.to_str().unwrap().into()]),
		("folder-prefix", vec!["-s".into(), format!("[/assets/]{}", root.to_str().unwrap())]),
		("tar", vec!["-s".into(), tarp.to_str().unwrap().into()]),
		("tar-prefix", vec!["-s".into(), format!("[/assets/]{}", tarp.to_str().unwrap())]),
	];
	let abs = base.to_str().unwrap().trim_start_matches('/').to_string();
	let segs: Vec<String> = vec!["sub".into(), "file.txt".into(), ".".into(), "..".into(), "".into(), "%2e%2e".into(), "%2f".into(), "secret.txt".into(), "www-private".into(), "..%2f".into(), abs.clone(), "keys.json".into(), "only.txt".into()];
	let mut rng = Rng::new(ctx.seed ^ 0x07);
	for (name, mut a) in configs {
		a.push(format!("[all]{}", base.join("all.vpl").to_str().unwrap()));
		let srv = start_server(&a)?;
		let prefix = if name.ends_with("prefix") { "/assets" } else { "" };
		// positive controls: files inside are served
		for (t, want) in [("/file.txt", "inside file"), ("/", "index"), ("/sub/inner.txt", "inner"), ("/pre.txt", "precompressed inside"), ("/sub/pre2.txt", "precompressed inside")] {
			if name.starts_with("tar") && t.contains("pre") { continue; }
			let target = format!("{prefix}{t}");
			match raw_get(srv.port, &target, &[]) {
				Some(r) if r.status == 200 && String::from_utf8_lossy(&r.body).contains(want) => {}
				other => col.violation("inside-not-served", &format!("{name}: GET {target}"), "", &format!("status {:?}", other.map(|r| r.status))),
			}
		}
		// hand-picked and generated escape attempts
		let mut targets: Vec<String> = vec!["/../secret.txt", "/sub/../../secret.txt", "/./../secret.txt", "//../secret.txt", "/%2e%2e/secret.txt", "/..%2fsecret.txt", "/../www-private/secret.txt",
			"/sub/../../www-private/secret.txt", "/../../../../../../etc/hostname", "/..", "/../", "/sub/..", "/.../secret.txt", "/..\\secret.txt",
			"/../keys.json", "/../keys2.json", "/sub/../../keys.json", "/../www-private/only.txt", "/../index.html", "/sub/../..", "/sub/../../", "/./../keys2.json", "/%2e%2e/keys.json", "/../keys.json.br"].iter().map(|s| s.to_string()).collect();
		for extra in ["//", "///", "////"] { targets.push(format!("{extra}{abs}/secret.txt")); targets.push(format!("{extra}{abs}/www-private/secret.txt")); targets.push(format!("/sub{extra}{abs}/secret.txt")); }
		let n = if ctx.thorough { 12000 } else { 1500 };
		for _ in 0..n {
			let k = rng.range(1, 5);
			let t: String = (0..k).map(|_| format!("/{}", rng.pick(&segs))).collect();
			targets.push(t);
		}
		for t in targets {
			for pre in [prefix.to_string(), if prefix.is_empty() { String::new() } else { format!("{prefix}/") }] {
				let target = format!("{pre}{t}");
				col.spec_cases += 1;
				match raw_get(srv.port, &target, &[]) {
					None => col.violation("dropped-connection", &format!("{name}: GET {target}"), "", "no complete HTTP response"),
					Some(r) => {
						let body = String::from_utf8_lossy(&r.body);
						// (hyper's own treatment of targets that begin with "//" is not modelled; those are only canary-checked)
						// a regular file followed by further segments ("file.txt/.") is an OS matter (ENOTDIR), not modelled
						let file_then_more = ["file.txt/", "inner.txt/", "secret.txt/", "index.html/"].iter().any(|f| target.contains(f));
						if name == "folder" && pre.is_empty() && !target.contains(' ') && !target.starts_with("//") && !file_then_more {
							let which = if r.status != 200 { "none" } else if body.contains(canary_out) { "file:../secret.txt" } else if body.contains(canary_sib) { "file:../www-private/secret.txt" } else if body.contains(canary_pre) { "file:outside-precompressed" }
								else if body.contains("root index") { "file:index.html" } else if body.contains("sub index") { "file:sub/index.html" }
								else if body.contains("inside file") { "file:file.txt" } else if body.contains("inner file") { "file:sub/inner.txt" } else { "?" };
							col.out.line(&format!("static {} {target} => {which}", root.to_str().unwrap()));
						}
						if body.contains(canary_out) || body.contains(canary_sib) || body.contains(canary_pre) {
							col.violation("escaped-root", &format!("{name}: GET {target}"), &format!("static {name} {target}"), &format!("status {} returned a file outside the configured root", r.status));
						}
					}
				}
			}
		}
		col.bump(&format!("config_{name}"), 1);
	}
	let _ = std::fs::remove_dir_all(&base);
	col.finish()
}
