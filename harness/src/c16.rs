//! C16: containers produced by encoders written for the harness from the published layouts, using
//! the freedoms the repository's writers never use, must open and return exactly what was encoded.
use crate::formats::{gen_tiles_shape, RoundTrip, V};
use crate::indep;
use crate::util::*;
use crate::Ctx;
use anyhow::Result;
use std::collections::BTreeMap;
use versatiles_container::get_reader;
use versatiles_core::types::*;

fn run_sets(rng: &mut Rng, i: usize) -> indep::TileMap {
	// consecutive Hilbert ids sharing one payload (what de-duplicating encoders merge into runs)
	let mut m = indep::TileMap::new();
	let nruns = 1 + rng.below(4);
	for r in 0..nruns {
		let z = [1u8, 2, 3, 5, 9, 12][rng.below(6) as usize];
		let base = indep::zoom_base(z);
		let span = indep::zoom_base(z + 1) - base;
		let len = 2 + rng.below(if i % 3 == 0 { 40 } else { 7 });
		// every third set: a run that crosses into the next zoom level
		let start = if (i + r as usize) % 3 == 1 { indep::zoom_base(z + 1) - 1 - rng.below(3) } else { base + rng.below(span) };
		let payload: Vec<u8> = (0..(5 + rng.below(30))).map(|_| rng.next() as u8).collect();
		for id in start..start + len { m.insert(indep::id_tile(id), payload.clone()); }
	}
	for _ in 0..rng.below(6) { let z = rng.below(14) as u8; let mx = (1u64 << z) - 1; let k = 1 + rng.below(50) as usize; m.insert((z, rng.below(mx + 1) as u32, rng.below(mx + 1) as u32), rng.bytes(k)); }
	m
}

pub fn run(ctx: &Ctx) -> Result<()> {
	let mut col = Collector::new(&ctx.out)?;
	run_into(ctx, &mut col, true)?;
	col.finish()
}

/// tar archives and directory trees with zero-length tile members - inside, at the edge of and beyond the box of the other
/// members, and alone on a level: whatever a lookup returns for a member's coordinate must lie inside the advertised coverage,
/// and a stream over the level must deliver exactly what the lookups return
fn empty_members(ctx: &Ctx, rt: &tokio::runtime::Runtime, dir: &std::path::Path, viol: &mut Vec<V>, stats: &mut BTreeMap<String, u64>) -> Result<()> {
	let mut rng = Rng::new(ctx.seed ^ 0xE0C16);
	for i in 0..(if ctx.thorough { 40 } else { 8 }) {
		let mut tiles: indep::TileMap = indep::TileMap::new();
		let z = *rng.pick(&[2u8, 3, 5]); let m = (1u32 << z) - 1;
		let (x0, y0) = (1 + rng.below(2) as u32, 1 + rng.below(2) as u32);
		for x in x0..=(x0 + 1).min(m) { for y in y0..=(y0 + 1).min(m) { tiles.insert((z, x, y), rng.bytes(20)); } }
		// a column whose row names have one, two and three digits (readers that list or sort names see 10 < 100 < 11 < 8 < 9)
		if i % 2 == 0 { for row in [8u32, 9, 10, 11, 100] { tiles.insert((7, 3, row), rng.bytes(10)); } }
		// zero-length members: beyond the box (east / south), inside it, and alone on another level
		let outside = (z, (x0 + 2 + rng.below(2) as u32).min(m), (y0 + 2).min(m));
		for c in [outside, (z, x0, y0 + 1), (z - 1, 0, 0), (z, 0, 0)] { if rng.chance(3, 4) || c == outside { tiles.insert(c, vec![]); } }
		for container in ["tar", "dir"] {
			let path = if container == "dir" { dir.join(format!("em{}_{i}_d", ctx.seed)) } else { dir.join(format!("em{}_{i}.tar", ctx.seed)) };
			if container == "tar" { std::fs::write(&path, indep::enc_tar(&tiles, ".png", b"{}", &mut rng))?; } else { let _ = std::fs::remove_dir_all(&path); indep::enc_directory(&path, &tiles, ".png")?; }
			let desc = format!("independently encoded {container} with zero-length members {:?}", { let mut e: Vec<_> = tiles.iter().filter(|(_, d)| d.is_empty()).map(|(c, _)| *c).collect(); e.sort(); e });
			*stats.entry("empty_member_files".into()).or_insert(0) += 1;
			let reader = match guarded(|| rt.block_on(get_reader(path.to_str().unwrap()))) { Ok(Ok(r)) => r, other => { viol.push(V { kind: "open-error".into(), input: desc, detail: format!("{:?}", other.map(|r| r.map(|_| ()).map_err(|e| format!("{e:#}")))) }); continue; } };
			let cov = reader.get_parameters().bbox_pyramid.clone();
			for ((tz, x, y), d) in &tiles {
				let got = guarded(|| rt.block_on(reader.get_tile_data(&TileCoord3 { x: *x, y: *y, z: *tz })));
				match got {
					Ok(Ok(Some(b))) => {
						if b.as_slice() != d.as_slice() { viol.push(V { kind: "lookup".into(), input: desc.clone(), detail: format!("member {tz}/{x}/{y}: other bytes than encoded") }); }
						if !cov.get_level_bbox(*tz).contains2(&TileCoord2::new(*x, *y)) { viol.push(V { kind: "coverage-misses-tile".into(), input: desc.clone(), detail: format!("the reader returns a tile ({} bytes) at {tz}/{x}/{y}, but the advertised coverage of level {tz} is {:?}", b.len(), cov.get_level_bbox(*tz)) }); }
					}
					Ok(Ok(None)) => if !d.is_empty() { viol.push(V { kind: "lookup".into(), input: desc.clone(), detail: format!("member {tz}/{x}/{y} is not returned") }); },
					other => viol.push(V { kind: "lookup".into(), input: desc.clone(), detail: format!("member {tz}/{x}/{y}: {:?}", other.map(|r| r.map(|o| o.map(|b| b.len())).map_err(|e| format!("{e:#}")))) }),
				}
			}
			// stream over the whole level = lookups
			for lz in [z, z - 1, 7] {
				let full = TileBBox::new_full(lz)?; let f2 = full.clone();
				let Ok(items) = guarded(|| rt.block_on(async { reader.get_bbox_tile_stream(f2).await.collect().await })) else { viol.push(V { kind: "stream".into(), input: desc.clone(), detail: format!("stream over level {lz} panicked") }); continue; };
				let mut got: Vec<(u32, u32, u64)> = items.iter().map(|(c, b)| (c.x, c.y, b.len())).collect(); got.sort();
				let mut exp: Vec<(u32, u32, u64)> = Vec::new();
				for c in full.iter_coords() { if let Ok(Ok(Some(b))) = guarded(|| rt.block_on(reader.get_tile_data(&c))) { exp.push((c.x, c.y, b.len())); } }
				exp.sort();
				if got != exp { viol.push(V { kind: "stream".into(), input: desc.clone(), detail: format!("stream over level {lz} delivers (x, y, bytes) {got:?}, lookups give {exp:?}") }); }
			}
			if container == "dir" { let _ = std::fs::remove_dir_all(&path); } else { let _ = std::fs::remove_file(&path); }
		}
	}
	Ok(())
}

pub fn run_into(ctx: &Ctx, col: &mut Collector, with_lines: bool) -> Result<()> {
	let rt = tokio::runtime::Builder::new_multi_thread().worker_threads(4).enable_all().build()?;
	let dir = std::fs::canonicalize(&ctx.out)?.join("files16");
	std::fs::create_dir_all(&dir)?;
	let rtp = RoundTrip { rt: &rt, dir: dir.clone(), lines: Default::default(), indep: false };
	let mut rng = Rng::new(ctx.seed ^ 0xC16);
	let mut viol: Vec<V> = vec![];
	let mut stats: BTreeMap<String, u64> = BTreeMap::new();
	empty_members(ctx, &rt, &dir, &mut viol, &mut stats)?;
	let n = if ctx.thorough { 150 } else { 18 };
	for i in 0..n {
		let tiles: indep::TileMap = if i % 2 == 0 { run_sets(&mut rng, i) } else { gen_tiles_shape(&mut rng, false, (i as u64 / 2) % 7).into_iter().filter(|(_, d)| !d.is_empty()).collect() };
		if tiles.is_empty() { continue; }
		let mut pyramid = TileBBoxPyramid::new_empty();
		for (z, x, y) in tiles.keys() { pyramid.include_coord(&TileCoord3 { x: *x, y: *y, z: *z }); }
		let meta = br#"{"name":"harness","attribution":"x"}"#;
		for container in ["pmtiles", "versatiles", "mbtiles", "tar", "dir"] {
			let name = format!("e{}_{i}", ctx.seed);
			let path = if container == "dir" { dir.join(format!("{name}_d")) } else { dir.join(format!("{name}.{container}")) };
			let (format, comp) = match container { "mbtiles" => (TileFormat::PNG, TileCompression::Uncompressed), _ => if i % 2 == 0 { (TileFormat::PBF, TileCompression::Uncompressed) } else { (TileFormat::PNG, TileCompression::Uncompressed) } };
			let (fb, tt, ext, mbf) = match format { TileFormat::PBF => (0x20u8, 1u8, ".pbf", "pbf"), _ => (0x10, 2, ".png", "png") };
			let mut desc = format!("independently encoded {container} tiles={} set={i}", tiles.len());
			let enc: Result<()> = (|| { match container {
				"pmtiles" => { let (f, lay) = indep::enc_pmtiles(&tiles, tt, 1, meta, &mut rng);
					desc += &format!(" runs={} max_run={} cross_zoom_runs={} directory_levels={}", lay.runs, lay.max_run, lay.cross_zoom_runs, lay.levels);
					*stats.entry("pm_runs".into()).or_insert(0) += lay.runs; *stats.entry("pm_cross_zoom_runs".into()).or_insert(0) += lay.cross_zoom_runs; *stats.entry(format!("pm_levels_{}", lay.levels)).or_insert(0) += 1;
					// correspondence: the implementation's lookups in every directory of the tree
					for d in lay.dirs.iter().take(6) { if d.len() > 40 { continue; } let mut ts: Vec<u64> = vec![]; for e in d { ts.push(e.id); ts.push(e.id + e.run); ts.push(e.id + e.run.saturating_sub(1)); ts.push(e.id.saturating_sub(1)); } ts.sort(); ts.dedup();
						for t in ts.into_iter().take(12) { if with_lines { crate::pmcorr::find_line(col, d, t); } } }
					std::fs::write(&path, f)?; }
				"versatiles" => std::fs::write(&path, indep::enc_versatiles(&tiles, fb, 0, meta, &mut rng))?,
				"mbtiles" => indep::enc_mbtiles(&path, &tiles, mbf, &mut rng)?,
				"tar" => std::fs::write(&path, indep::enc_tar(&tiles, ext, meta, &mut rng))?,
				_ => { let _ = std::fs::remove_dir_all(&path); std::fs::create_dir_all(&path)?; indep::enc_directory(&path, &tiles, ext)?; }
			} Ok(()) })();
			if let Err(e) = enc { viol.push(V { kind: "harness-encoder".into(), input: desc.clone(), detail: format!("{e:#}") }); continue; }
			*stats.entry(format!("encoded:{container}")).or_insert(0) += 1;
			let pstr = path.to_str().unwrap().to_string();
			match guarded(|| rt.block_on(get_reader(&pstr))) {
				Err(m) => viol.push(V { kind: "open-panic".into(), input: desc.clone(), detail: m }),
				Ok(Err(e)) => viol.push(V { kind: "valid-container-rejected".into(), input: desc.clone(), detail: format!("{e:#}") }),
				Ok(Ok(reader)) => { rtp.verify(&desc, if container == "versatiles" { "versatiles-indep" } else { container }, reader.as_ref(), &tiles, &pyramid, format, comp, None, &mut rng, &mut viol, &mut stats);
					// PMTiles: coordinates whose tile id lies a multiple of 2^32 (2^16, 2^8) behind a stored tile's id are deep tiles
					// nobody encoded: the lookup must give nothing (unless that coordinate happens to be stored)
					if container == "pmtiles" { let mut ks: Vec<_> = tiles.keys().cloned().collect(); ks.sort(); for (z, x, y) in ks.into_iter().take(40) { for k in [1u64 << 32, 2 << 32, 1 << 16, 1 << 8] {
						let (fz, fx, fy) = indep::id_tile(indep::tile_id(z, x, y) + k); if fz > 31 || tiles.contains_key(&(fz, fx, fy)) { continue; }
						// inside a run the neighbouring ids are stored tiles; only ids outside every run are probed
						if tiles.keys().any(|(tz, tx, ty)| { let i = indep::tile_id(*tz, *tx, *ty); i == indep::tile_id(fz, fx, fy) }) { continue; }
						*stats.entry("pm_far_lookups".into()).or_insert(0) += 1;
						match guarded(|| rt.block_on(reader.get_tile_data(&TileCoord3 { x: fx, y: fy, z: fz }))) { Ok(Ok(None)) => {} Ok(Ok(Some(b))) => { viol.push(V { kind: "lookup".into(), input: desc.clone(), detail: format!("tile {fz}/{fx}/{fy} (tile id {} = id of stored {z}/{x}/{y} + {k}) was never encoded, the reader returns {} bytes", indep::tile_id(fz, fx, fy), b.len()) }); break; } _ => {} } } } }
				}
			}
			col.spec_cases += 1;
			if container == "dir" { let _ = std::fs::remove_dir_all(&path); } else { let _ = std::fs::remove_file(&path); }
		}
	}
	let _ = std::fs::remove_dir_all(&dir);
	// model correspondence for directories and ids
	if with_lines { crate::pmcorr::lines(col, &mut rng, &[], ctx.thorough); let nd = std::fs::canonicalize(&ctx.out)?; crate::naming::lines(col, &mut rng, &nd, if ctx.thorough { 3000 } else { 300 }); }
	for x in &viol { col.violation(&x.kind, &x.input, &x.input, &x.detail); }
	for (k, v) in stats { col.bump(&k, v); }
	Ok(())
}
