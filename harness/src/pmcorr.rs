//! Correspondence lines for the PMTiles tile-id and directory models (C01, C16).
use crate::indep;
use crate::util::*;
use versatiles_container::verif_pmtiles_types::{tile_id_to_coord, EntriesV3, EntryV3, HeaderV3, TileId};
use versatiles_container::verif_versatiles_types::{BlockDefinition, FileHeader, TileIndex};
use versatiles_core::types::*;

fn outcome<T>(r: Result<anyhow::Result<T>, String>, f: impl Fn(T) -> String) -> String {
	match r { Ok(Ok(v)) => f(v), Ok(Err(_)) => "err".into(), Err(m) => if is_overflow(&m) { "overflow".into() } else { "panic".into() } }
}
fn fmt_entry(e: &EntryV3) -> String { format!("{},{},{},{}", e.tile_id, e.range.offset, e.range.length, e.run_length) }
pub fn fmt_entries(es: &[indep::Entry]) -> String { if es.is_empty() { "-".into() } else { es.iter().map(|e| format!("{},{},{},{}", e.id, e.off, e.len, e.run)).collect::<Vec<_>>().join(";") } }
fn to_v3(es: &[indep::Entry]) -> EntriesV3 { let mut v = EntriesV3::new(); for e in es { v.push(EntryV3::new(e.id, ByteRange::new(e.off, e.len), e.run as u32)); } v }

/// the entry generator of the `pmdir.asdir` lines (ocaml/model_run.ml builds the same list)
pub fn seq_entries(n: u64, a: u64, st: u64, m: u64, o0: u64, g: u64) -> Vec<indep::Entry> {
	let mut es = vec![]; let (mut off, mut prevlen) = (o0, 0u64);
	for i in 0..n {
		if i > 0 { off += prevlen + if i % 5 == 0 { g } else { 0 }; }
		let len = 1 + (i * 13) % m;
		es.push(indep::Entry { id: a + i * st, off, len, run: 1 + (i * 7) % 3 });
		prevlen = len;
	}
	es
}

pub fn gen_dir(rng: &mut Rng, n: usize, leafy: bool) -> Vec<indep::Entry> {
	let mut es = vec![]; let mut id = rng.below(5); let mut off = rng.below(100);
	for _ in 0..n {
		let run = if leafy && rng.chance(1, 3) { 0 } else { 1 + if rng.chance(1, 3) { rng.below(6) } else { 0 } };
		let len = if rng.chance(1, 12) { 0 } else { 1 + rng.below(300) };
		if rng.chance(1, 3) { off = rng.below(1 << 20); }
		es.push(indep::Entry { id, off, len, run });
		off += len; id += run.max(1) + if rng.chance(1, 2) { 0 } else { rng.below(9) };
		if rng.chance(1, 40) { id += 1 << 40; }
	}
	es
}

pub fn find_line(col: &mut Collector, es: &[indep::Entry], t: u64) {
	let v3 = to_v3(es);
	let r = guarded(|| Ok(v3.find_tile(t)));
	col.out.line(&format!("pmdir.find {} {t} => {}", fmt_entries(es), outcome(r, |o| o.map_or("none".into(), |e| fmt_entry(&e)))));
}

pub fn lines(col: &mut Collector, rng: &mut Rng, coords: &[(u8, u32, u32)], thorough: bool) {
	// tile ids: coordinates of the generated sets, extremes of every level, random deep coordinates
	let mut cs: Vec<(u8, u32, u32)> = coords.to_vec();
	for z in 0..32u8 { let m = ((1u64 << z) - 1) as u32; for c in [(z, 0, 0), (z, m, m), (z, m, 0), (z, 0, m), (z, m / 2, m / 2 + (z > 0) as u32)] { cs.push(c); } }
	for _ in 0..(if thorough { 4000 } else { 400 }) { let z = rng.below(32) as u8; let m = (1u64 << z) - 1; cs.push((z, rng.below(m + 1) as u32, rng.below(m + 1) as u32)); }
	cs.push((32, 0, 0)); cs.push((3, 8, 0)); cs.push((3, 0, 8)); cs.push((0, 1, 0));
	for (z, x, y) in cs {
		let r = guarded(|| TileCoord3 { x, y, z }.get_tile_id());
		let rs = outcome(r, |v| v.to_string());
		col.out.line(&format!("tileid {z} {x} {y} => {rs}"));
		if let Ok(id) = rs.parse::<u64>() {
			// the textbook curve (quadrant recursion) assigns the same id
			col.spec_cases += 1;
			if indep::tile_id(z, x, y) != id { col.violation("tile-id", &format!("{z}/{x}/{y}"), "", &format!("implementation {id}, Hilbert quadrant recursion {}", indep::tile_id(z, x, y))); }
			col.out.line(&format!("idcoord {id} => {}", outcome(guarded(|| tile_id_to_coord(id)), |c| format!("{} {} {}", c.z, c.x, c.y))));
		}
	}
	for id in [u64::MAX, 6148914691236517205, 6148914691236517204, 1 << 63] { col.out.line(&format!("idcoord {id} => {}", outcome(guarded(|| tile_id_to_coord(id)), |c| format!("{} {} {}", c.z, c.x, c.y)))); }
	// directories
	for i in 0..(if thorough { 600 } else { 80 }) {
		let n = rng.below(if i % 9 == 0 { 60 } else { 9 }) as usize; let es = gen_dir(rng, n, i % 2 == 0);
		let v3 = to_v3(&es);
		let ser = guarded(|| v3.as_slice().serialize_entries());
		let hexs = outcome(ser, |b| hex(b.as_slice()));
		col.out.line(&format!("pmdir.ser {} => {}", fmt_entries(&es), if hexs.is_empty() { "-".into() } else { hexs.clone() }));
		// the implementation's decoder on: its own encoding, the independent encoder's choices, mutations
		let mut inputs: Vec<Vec<u8>> = vec![indep::enc_dir(&es, rng)];
		if hexs.chars().all(|c| c.is_ascii_hexdigit()) { inputs.push(unhex(&hexs)); }
		let mut m = inputs[0].clone(); if !m.is_empty() { let k = rng.below(m.len() as u64) as usize; match rng.below(4) { 0 => m[k] ^= 1 << rng.below(8), 1 => m.truncate(k), 2 => m[k] = 0, _ => m.insert(k, 0x80 | rng.next() as u8) } } inputs.push(m);
		for b in inputs {
			let r = guarded(|| EntriesV3::from_blob(&Blob::from(b.clone())));
			col.out.line(&format!("pmdir.de {} => {}", if b.is_empty() { "-".into() } else { hex(&b) }, outcome(r, |v| { let s = v.iter().map(fmt_entry).collect::<Vec<_>>().join(";"); format!("ok {}", if s.is_empty() { "-".into() } else { s }) })));
		}
		// lookups around every entry
		let mut ts: Vec<u64> = vec![0, u64::MAX]; for e in &es { for d in [0u64, 1, e.run, e.run.saturating_sub(1), e.run + 1] { ts.push(e.id.saturating_add(d)); } ts.push(e.id.saturating_sub(1));
			// ids a multiple of 2^32 (and of 2^16, 2^8) behind an entry: not in its run, however the distance is truncated
			if rng.chance(1, 2) { for k in [1u64 << 32, 3 << 32, 1 << 16, 1 << 8] { ts.push(e.id.saturating_add(k)); ts.push(e.id.saturating_add(k + e.run.saturating_sub(1))); } } }
		ts.sort(); ts.dedup();
		for t in ts.into_iter().take(90) {
			let r = guarded(|| Ok(v3.find_tile(t)));
			col.out.line(&format!("pmdir.find {} {t} => {}", fmt_entries(&es), outcome(r, |o| o.map_or("none".into(), |e| fmt_entry(&e)))));
		}
	}
	// the writer's directory construction (as_directory / build_roots_leaves) against the Coq writer model.
	// Entries come from a generator both sides implement; the leaf size the code settled on is read off its
	// first leaf (the model's theorems hold for every size > 0, the line pins everything else: which entries
	// go to which leaf, the pointers' ids / offsets / lengths, the bytes of the root and of the leaves section)
	for i in 0..(if thorough { 36 } else { 12 }) {
		let n = match i % 4 { 0 => rng.range(1, 60), 1 => rng.range(4097, 9000), 2 => rng.range(12289, 16383), _ => rng.range(16384, 21000) };
		let (a, st, m, o0, g) = (rng.below(50), 4 + rng.below(5), 1 + rng.below(400), rng.below(1000), rng.below(5000));
		let target = match i % 3 { 0 => 1u64 << 30, 1 => rng.range(16, 36), _ => rng.range(30, 80) };
		let es = seq_entries(n, a, st, m, o0, g);
		let mut v3 = to_v3(&es); if i % 2 == 1 { let mut r = es.clone(); r.reverse(); v3 = to_v3(&r); }
		let r = guarded(|| v3.as_directory(target, &TileCompression::Uncompressed));
		let k = std::cell::Cell::new(n);
		let res = outcome(r, |d| {
			let hash = |b: &[u8]| { let mut h = 7u64; for x in b { h = (h * 31 + *x as u64) % 1000000007; } format!("{}:{h}", b.len()) };
			let (mut ptrs, mut cuts) = ("-".to_string(), "-".to_string());
			if !d.leaves_bytes.is_empty() {
				match indep::dec_dir(d.root_bytes.as_slice()) {
					Ok(root) => {
						ptrs = fmt_entries(&root);
						let lb = d.leaves_bytes.as_slice();
						let counts: Vec<usize> = root.iter().map(|p| { let (o, l) = (p.off as usize, p.len as usize); if o + l <= lb.len() { indep::dec_dir(&lb[o..o + l]).map(|v| v.len()).unwrap_or(usize::MAX) } else { usize::MAX } }).collect();
						if counts.len() > 1 { k.set(counts[0] as u64); }
						cuts = counts.iter().map(|c| c.to_string()).collect::<Vec<_>>().join(",");
					}
					Err(_) => { ptrs = "unparsable".into(); }
				}
			}
			format!("root={} leaves={} ptrs={ptrs} cuts={cuts}", hash(d.root_bytes.as_slice()), hash(d.leaves_bytes.as_slice()))
		});
		col.out.line(&format!("pmdir.asdir {target} {} {n} {a} {st} {m} {o0} {g} => {res}", k.get()));
	}
	vtbytes_lines(col, rng, if thorough { 2000 } else { 250 }, false);
	// an unsorted directory: the lookup subtracts ids in u64
	let bad = vec![indep::Entry { id: 9, off: 0, len: 5, run: 2 }, indep::Entry { id: 3, off: 5, len: 5, run: 1 }];
	col.out.line(&format!("pmdir.find {} 4 => {}", fmt_entries(&bad), outcome(guarded(|| Ok(to_v3(&bad).find_tile(4))), |o| o.map_or("none".into(), |e| fmt_entry(&e)))));
}

/// C19: directory parser and search on mutated, hand-made and unsorted directories
pub fn malformed_lines(col: &mut Collector, rng: &mut Rng, n: usize) {
	vtbytes_lines(col, rng, n, true);
	for i in 0..n {
		let k = rng.below(7) as usize; let es = gen_dir(rng, k, i % 2 == 0);
		let mut b = indep::enc_dir(&es, rng);
		for _ in 0..rng.range(1, 3) { if b.is_empty() { break; } let k = rng.below(b.len() as u64) as usize; match rng.below(5) { 0 => b[k] ^= 1 << rng.below(8), 1 => b.truncate(k), 2 => b[k] = 0xff, 3 => b.insert(k, 0x80 | rng.next() as u8), _ => b[k] = 0 } }
		let r = guarded(|| EntriesV3::from_blob(&Blob::from(b.clone())));
		col.out.line(&format!("pmdir.de {} => {}", if b.is_empty() { "-".into() } else { hex(&b) }, outcome(r, |v| { let s = v.iter().map(fmt_entry).collect::<Vec<_>>().join(";"); format!("ok {}", if s.is_empty() { "-".into() } else { s }) })));
		// an arbitrary (unsorted, overlapping) directory
		let mut es2 = es.clone(); if es2.len() >= 2 { let (a, b) = (rng.below(es2.len() as u64) as usize, rng.below(es2.len() as u64) as usize); es2.swap(a, b); }
		for e in es2.iter_mut() { if rng.chance(1, 4) { e.id = rng.below(40); } }
		for t in [0u64, 3, 7, 20, 39, u64::MAX] { find_line(col, &es2, t); }
	}
}

// ---------------------------------------------------------------- versatiles v02 at byte level (Model/VTBytes.v)
fn bdef_line(col: &mut Collector, b: &[u8]) {
	let r = guarded(|| BlockDefinition::from_blob(&Blob::from(b.to_vec())));
	let txt = outcome(r, |d| { let g = d.get_global_bbox(); let c = d.get_coord3(); let (t, i) = (d.get_tiles_range(), d.get_index_range());
		let re = match guarded(|| d.as_blob()) { Ok(Ok(x)) => hex(x.as_slice()), Ok(Err(_)) => "err".into(), Err(m) => if is_overflow(&m) { "overflow".into() } else { "panic".into() } };
		format!("ok {} {} {} {} {} {} {} {} {} {} {} {re}", c.z, c.x, c.y, g.x_min, g.y_min, g.x_max, g.y_max, t.offset, t.length, i.offset, i.length) });
	col.out.line(&format!("vt.bdef {} => {txt}", if b.is_empty() { "-".into() } else { hex(b) }));
}
fn hdr_line(col: &mut Collector, rt: &tokio::runtime::Runtime, b: &[u8]) {
	// from_reader reads the first 66 bytes of the file; the lines give at most 66
	let mut dr: versatiles_core::io::DataReader = Box::new(versatiles_core::io::DataReaderBlob::from(b.to_vec()));
	let r = guarded(|| rt.block_on(FileHeader::from_reader(&mut dr)));
	let txt = outcome(r, |h| match guarded(|| h.to_blob()) { Ok(Ok(x)) => format!("ok {}", hex(x.as_slice())), Ok(Err(_)) => "ok err".into(), Err(_) => "ok panic".into() });
	col.out.line(&format!("vt.hdr {} => {txt}", if b.is_empty() { "-".into() } else { hex(b) }));
}
fn gen_hdr_bytes(rng: &mut Rng) -> Vec<u8> {
	let mut o = b"versatiles_v02".to_vec();
	o.push(*rng.pick(&[0u8, 0x10, 0x11, 0x12, 0x13, 0x14, 0x20, 0x21, 0x22, 0x23, 0x23, 0x20, 0x10, 0x01, 0x15, 0x24, 0xff]));
	o.push(*rng.pick(&[0u8, 1, 2, 0, 1, 2, 3, 255]));
	o.push(rng.below(33) as u8); o.push(*rng.pick(&[0u8, 14, 31, 32, 255]));
	for _ in 0..4 { o.extend_from_slice(&(*rng.pick(&[0i32, -1, i32::MIN, i32::MAX, 134_000_000, -1_800_000_000])).wrapping_add(rng.below(1000) as i32).to_be_bytes()); }
	for _ in 0..4 { o.extend_from_slice(&(*rng.pick(&[0u64, 66, 1 << 20, 1 << 40, u64::MAX - 2000]) + rng.below(1000)).to_be_bytes()); }
	o
}
fn pmhdr_line(col: &mut Collector, b: &[u8]) {
	let r = guarded(|| HeaderV3::deserialize(&Blob::from(b.to_vec())));
	let txt = outcome(r, |h| match guarded(|| h.serialize()) { Ok(Ok(x)) => format!("ok {}", hex(x.as_slice())), Ok(Err(_)) => "ok err".into(), Err(_) => "ok panic".into() });
	col.out.line(&format!("pm.hdr {} => {txt}", if b.is_empty() { "-".into() } else { hex(b) }));
}
fn gen_pmhdr_bytes(rng: &mut Rng) -> Vec<u8> {
	let mut o = b"PMTiles".to_vec(); o.push(*rng.pick(&[3u8, 3, 3, 3, 3, 3, 2, 4]));
	for _ in 0..11 { o.extend_from_slice(&(*rng.pick(&[0u64, 127, 16384, 1 << 20, 1 << 40, u64::MAX - 2000]) + rng.below(1000)).to_le_bytes()); }
	o.push(*rng.pick(&[0u8, 1, 1, 2, 255]));
	o.push(*rng.pick(&[0u8, 1, 2, 2, 2, 3, 4, 5, 255])); o.push(*rng.pick(&[0u8, 1, 1, 2, 3, 4, 5])); o.push(*rng.pick(&[0u8, 1, 1, 2, 3, 4, 5, 6, 255]));
	o.push(rng.below(33) as u8); o.push(*rng.pick(&[0u8, 14, 31, 32, 255]));
	for _ in 0..4 { o.extend_from_slice(&(*rng.pick(&[0i32, -1, i32::MIN, i32::MAX, 134_000_000, -1_800_000_000])).wrapping_add(rng.below(1000) as i32).to_le_bytes()); }
	o.push(rng.below(33) as u8);
	for _ in 0..2 { o.extend_from_slice(&(*rng.pick(&[0i32, -1, i32::MIN, i32::MAX, 90_000_000])).wrapping_add(rng.below(1000) as i32).to_le_bytes()); }
	o
}
fn tidx_line(col: &mut Collector, b: &[u8], add: u64) {
	let r = guarded(|| TileIndex::from_blob(Blob::from(b.to_vec())));
	let fmt = |t: &TileIndex| { let s = t.iter().map(|r| format!("{}:{}", r.offset, r.length)).collect::<Vec<_>>().join(","); if s.is_empty() { "-".to_string() } else { s } };
	let txt = match r { Ok(Ok(mut t)) => { let a = fmt(&t);
			let shifted = match guarded(|| { t.add_offset(add); anyhow::Ok(fmt(&t)) }) { Ok(Ok(s)) => s, Ok(Err(_)) => "err".into(), Err(m) => if is_overflow(&m) { "overflow".into() } else { "panic".into() } };
			format!("ok {a} {shifted}") }
		Ok(Err(_)) => "err".into(), Err(m) => if is_overflow(&m) { "overflow".into() } else { "panic".into() } };
	col.out.line(&format!("vt.tidx {add} {} => {txt}", if b.is_empty() { "-".into() } else { hex(b) }));
}
fn gen_bdef_bytes(rng: &mut Rng) -> Vec<u8> {
	// a valid definition: a cell of the 256-grid of some level, arbitrary byte ranges; then sometimes one field pushed over a border
	let z = *rng.pick(&[0u8, 1, 3, 7, 8, 9, 12, 20, 30, 31]); let n = 1u64 << z;
	let (bx, by) = (rng.below(((n + 255) / 256).max(1)) as u32, rng.below(((n + 255) / 256).max(1)) as u32);
	let lim = (n.min(256) - 1) as u8;
	let (a, b2, c, d) = (rng.below(lim as u64 + 1) as u8, rng.below(lim as u64 + 1) as u8, rng.below(lim as u64 + 1) as u8, rng.below(lim as u64 + 1) as u8);
	let (mut cx0, mut cx1, mut cy0, mut cy1) = (a.min(c), a.max(c), b2.min(d), b2.max(d));
	let mut zz = z; let (mut x, mut y) = (bx, by);
	let mut off = *rng.pick(&[0u64, 66, 1 << 20, 1 << 40, u64::MAX - 1000]) + rng.below(500); let mut tlen = *rng.pick(&[0u64, 1, 999, 1 << 33]) + rng.below(300); let ilen = *rng.pick(&[0u32, 12, 3060, u32::MAX]);
	match rng.below(14) { 0 => zz = *rng.pick(&[32u8, 40, 255]), 1 => x = *rng.pick(&[1u32 << 24, (1 << 24) - 1, u32::MAX, (n / 256) as u32 + 1]), 2 => y = *rng.pick(&[1u32 << 24, u32::MAX]), 3 => { cx0 = cx1.wrapping_add(1); } 4 => { cy1 = 255; cx1 = 255; } 5 => { off = u64::MAX - 5; tlen = 10; } 6 => { std::mem::swap(&mut cy0, &mut cy1); } _ => {} }
	let mut o = vec![zz]; o.extend_from_slice(&x.to_be_bytes()); o.extend_from_slice(&y.to_be_bytes()); o.extend_from_slice(&[cx0, cy0, cx1, cy1]);
	o.extend_from_slice(&off.to_be_bytes()); o.extend_from_slice(&tlen.to_be_bytes()); o.extend_from_slice(&ilen.to_be_bytes());
	o
}
pub fn vtbytes_lines(col: &mut Collector, rng: &mut Rng, n: usize, malformed: bool) {
	let rt = tokio::runtime::Builder::new_current_thread().enable_all().build().unwrap();
	for i in 0..n {
		if i % 2 == 0 { let mut h = gen_hdr_bytes(rng);
			if malformed { match rng.below(6) { 0 => { let k = rng.below(67) as usize; h.truncate(k); } 1 => { let k = rng.below(16) as usize; h[k] = rng.next() as u8; } 2 => { let k = rng.below(h.len() as u64) as usize; h[k] ^= 1 << rng.below(8); } 3 => { h = rng.bytes(66); } 4 => { h[rng.below(14) as usize] = 0xff; } _ => {} } }
			hdr_line(col, &rt, &h);
			let mut p = gen_pmhdr_bytes(rng);
			if malformed { match rng.below(6) { 0 => { let k = rng.below(128) as usize; p.truncate(k); } 1 => { let k = rng.below(8) as usize; p[k] = rng.next() as u8; } 2 => { let k = rng.below(p.len() as u64) as usize; p[k] ^= 1 << rng.below(8); } 3 => { p = rng.bytes(127); } 4 => { p.push(0); } _ => {} } }
			pmhdr_line(col, &p); }
		let mut b = gen_bdef_bytes(rng);
		if malformed { match rng.below(5) { 0 => { let k = rng.below(b.len() as u64 + 1) as usize; b.truncate(k); } 1 => { let k = rng.below(b.len() as u64) as usize; b[k] = rng.next() as u8; } 2 => { b.extend(rng.bytes(3)); } 3 => { b = rng.bytes(33); } _ => {} } }
		bdef_line(col, &b);
		// BlockDefinition::new on a cell + ranges, serialised
		if !malformed {
			let z = *rng.pick(&[0u8, 3, 8, 9, 14, 31]); let m = ((1u64 << z) - 1) as u32;
			let (bx, by) = (rng.below((m as u64 >> 8) + 1) as u32, rng.below((m as u64 >> 8) + 1) as u32);
			let hi = |b: u32| (b * 256 + 255).min(m);
			let (x0, x1) = { let (p, q) = (rng.range((bx * 256) as u64, hi(bx) as u64) as u32, rng.range((bx * 256) as u64, hi(bx) as u64) as u32); (p.min(q), p.max(q)) };
			let (y0, y1) = { let (p, q) = (rng.range((by * 256) as u64, hi(by) as u64) as u32, rng.range((by * 256) as u64, hi(by) as u64) as u32); (p.min(q), p.max(q)) };
			let (toff, tlen, ilen) = (rng.below(1 << 40), rng.below(1 << 30), rng.below(1 << 20));
			let r = guarded(|| { let mut d = BlockDefinition::new(&TileBBox::new(z, x0, y0, x1, y1)?); d.set_tiles_range(ByteRange::new(toff, tlen)); d.set_index_range(ByteRange::new(toff + tlen, ilen)); d.as_blob() });
			col.out.line(&format!("vt.bnew {z} {x0} {y0} {x1} {y1} {toff} {tlen} {ilen} => {}", outcome(r, |b| hex(b.as_slice()))));
		}
		// tile index: k entries (offsets near the u64 border now and then), sometimes cut or extended
		let k = rng.below(6) as usize; let mut t = Vec::new();
		for _ in 0..k { let off = if rng.chance(1, 8) { u64::MAX - rng.below(2000) } else { rng.below(1 << 40) }; t.extend_from_slice(&off.to_be_bytes()); t.extend_from_slice(&(if rng.chance(1, 6) { 0u32 } else if rng.chance(1, 6) { u32::MAX } else { rng.below(100000) as u32 }).to_be_bytes()); }
		if malformed || rng.chance(1, 5) { match rng.below(3) { 0 => { let c = rng.below(t.len() as u64 + 1) as usize; t.truncate(c); } 1 => { let k = 1 + rng.below(11) as usize; t.extend(rng.bytes(k)); } _ => {} } }
		tidx_line(col, &t, *rng.pick(&[0u64, 66, 1 << 33, 1500, u64::MAX - 100]));
	}
}
