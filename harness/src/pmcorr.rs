//! Correspondence lines for the PMTiles tile-id and directory models (C01, C16).
use crate::indep;
use crate::util::*;
use versatiles_container::verif_pmtiles_types::{tile_id_to_coord, EntriesV3, EntryV3, TileId};
use versatiles_core::types::*;

fn outcome<T>(r: Result<anyhow::Result<T>, String>, f: impl Fn(T) -> String) -> String {
	match r { Ok(Ok(v)) => f(v), Ok(Err(_)) => "err".into(), Err(m) => if is_overflow(&m) { "overflow".into() } else { "panic".into() } }
}
fn fmt_entry(e: &EntryV3) -> String { format!("{},{},{},{}", e.tile_id, e.range.offset, e.range.length, e.run_length) }
pub fn fmt_entries(es: &[indep::Entry]) -> String { if es.is_empty() { "-".into() } else { es.iter().map(|e| format!("{},{},{},{}", e.id, e.off, e.len, e.run)).collect::<Vec<_>>().join(";") } }
fn to_v3(es: &[indep::Entry]) -> EntriesV3 { let mut v = EntriesV3::new(); for e in es { v.push(EntryV3::new(e.id, ByteRange::new(e.off, e.len), e.run as u32)); } v }

pub fn gen_dir(rng: &mut Rng, n: usize, leafy: bool) -> Vec<indep::Entry> {
	let mut es = vec![]; let mut id = rng.below(5); let mut off = rng.below(100);
	for _ in 0..n {
		let run = if leafy && rng.chance(1, 3) { 0 } else { 1 + if rng.chance(1, 3) { rng.below(6) } else { 0 } };
		let len = if rng.chance(1, 12) { 0 } else { 1 + rng.below(300) };
		if rng.chance(1, 3) { off = rng.below(1 << 20); }
		es.push(indep::Entry { id, off, len, run });
		off += len; id += run.max(1) + if rng.chance(1, 2) { 0 } else { rng.below(9) };
		if rng.chance(1, 40) { id += 1 << 40; }
	}
	es
}

pub fn find_line(col: &mut Collector, es: &[indep::Entry], t: u64) {
	let v3 = to_v3(es);
	let r = guarded(|| Ok(v3.find_tile(t)));
	col.out.line(&format!("pmdir.find {} {t} => {}", fmt_entries(es), outcome(r, |o| o.map_or("none".into(), |e| fmt_entry(&e)))));
}

pub fn lines(col: &mut Collector, rng: &mut Rng, coords: &[(u8, u32, u32)], thorough: bool) {
	// tile ids: coordinates of the generated sets, extremes of every level, random deep coordinates
	let mut cs: Vec<(u8, u32, u32)> = coords.to_vec();
	for z in 0..32u8 { let m = ((1u64 << z) - 1) as u32; for c in [(z, 0, 0), (z, m, m), (z, m, 0), (z, 0, m), (z, m / 2, m / 2 + (z > 0) as u32)] { cs.push(c); } }
	for _ in 0..(if thorough { 4000 } else { 400 }) { let z = rng.below(32) as u8; let m = (1u64 << z) - 1; cs.push((z, rng.below(m + 1) as u32, rng.below(m + 1) as u32)); }
	cs.push((32, 0, 0)); cs.push((3, 8, 0)); cs.push((3, 0, 8)); cs.push((0, 1, 0));
	for (z, x, y) in cs {
		let r = guarded(|| TileCoord3 { x, y, z }.get_tile_id());
		let rs = outcome(r, |v| v.to_string());
		col.out.line(&format!("tileid {z} {x} {y} => {rs}"));
		if let Ok(id) = rs.parse::<u64>() {
			// the textbook curve (quadrant recursion) assigns the same id
			col.spec_cases += 1;
			if indep::tile_id(z, x, y) != id { col.violation("tile-id", &format!("{z}/{x}/{y}"), "", &format!("implementation {id}, Hilbert quadrant recursion {}", indep::tile_id(z, x, y))); }
			col.out.line(&format!("idcoord {id} => {}", outcome(guarded(|| tile_id_to_coord(id)), |c| format!("{} {} {}", c.z, c.x, c.y))));
		}
	}
	for id in [u64::MAX, 6148914691236517205, 6148914691236517204, 1 << 63] { col.out.line(&format!("idcoord {id} => {}", outcome(guarded(|| tile_id_to_coord(id)), |c| format!("{} {} {}", c.z, c.x, c.y)))); }
	// directories
	for i in 0..(if thorough { 600 } else { 80 }) {
		let n = rng.below(if i % 9 == 0 { 60 } else { 9 }) as usize; let es = gen_dir(rng, n, i % 2 == 0);
		let v3 = to_v3(&es);
		let ser = guarded(|| v3.as_slice().serialize_entries());
		let hexs = outcome(ser, |b| hex(b.as_slice()));
		col.out.line(&format!("pmdir.ser {} => {}", fmt_entries(&es), if hexs.is_empty() { "-".into() } else { hexs.clone() }));
		// the implementation's decoder on: its own encoding, the independent encoder's choices, mutations
		let mut inputs: Vec<Vec<u8>> = vec![indep::enc_dir(&es, rng)];
		if hexs.chars().all(|c| c.is_ascii_hexdigit()) { inputs.push(unhex(&hexs)); }
		let mut m = inputs[0].clone(); if !m.is_empty() { let k = rng.below(m.len() as u64) as usize; match rng.below(4) { 0 => m[k] ^= 1 << rng.below(8), 1 => m.truncate(k), 2 => m[k] = 0, _ => m.insert(k, 0x80 | rng.next() as u8) } } inputs.push(m);
		for b in inputs {
			let r = guarded(|| EntriesV3::from_blob(&Blob::from(b.clone())));
			col.out.line(&format!("pmdir.de {} => {}", if b.is_empty() { "-".into() } else { hex(&b) }, outcome(r, |v| { let s = v.iter().map(fmt_entry).collect::<Vec<_>>().join(";"); format!("ok {}", if s.is_empty() { "-".into() } else { s }) })));
		}
		// lookups around every entry
		let mut ts: Vec<u64> = vec![0, u64::MAX]; for e in &es { for d in [0u64, 1, e.run, e.run.saturating_sub(1), e.run + 1] { ts.push(e.id.saturating_add(d)); } ts.push(e.id.saturating_sub(1)); }
		ts.sort(); ts.dedup();
		for t in ts.into_iter().take(40) {
			let r = guarded(|| Ok(v3.find_tile(t)));
			col.out.line(&format!("pmdir.find {} {t} => {}", fmt_entries(&es), outcome(r, |o| o.map_or("none".into(), |e| fmt_entry(&e)))));
		}
	}
	// an unsorted directory: the lookup subtracts ids in u64
	let bad = vec![indep::Entry { id: 9, off: 0, len: 5, run: 2 }, indep::Entry { id: 3, off: 5, len: 5, run: 1 }];
	col.out.line(&format!("pmdir.find {} 4 => {}", fmt_entries(&bad), outcome(guarded(|| Ok(to_v3(&bad).find_tile(4))), |o| o.map_or("none".into(), |e| fmt_entry(&e)))));
}

/// C19: directory parser and search on mutated, hand-made and unsorted directories
pub fn malformed_lines(col: &mut Collector, rng: &mut Rng, n: usize) {
	for i in 0..n {
		let k = rng.below(7) as usize; let es = gen_dir(rng, k, i % 2 == 0);
		let mut b = indep::enc_dir(&es, rng);
		for _ in 0..rng.range(1, 3) { if b.is_empty() { break; } let k = rng.below(b.len() as u64) as usize; match rng.below(5) { 0 => b[k] ^= 1 << rng.below(8), 1 => b.truncate(k), 2 => b[k] = 0xff, 3 => b.insert(k, 0x80 | rng.next() as u8), _ => b[k] = 0 } }
		let r = guarded(|| EntriesV3::from_blob(&Blob::from(b.clone())));
		col.out.line(&format!("pmdir.de {} => {}", if b.is_empty() { "-".into() } else { hex(&b) }, outcome(r, |v| { let s = v.iter().map(fmt_entry).collect::<Vec<_>>().join(";"); format!("ok {}", if s.is_empty() { "-".into() } else { s }) })));
		// an arbitrary (unsorted, overlapping) directory
		let mut es2 = es.clone(); if es2.len() >= 2 { let (a, b) = (rng.below(es2.len() as u64) as usize, rng.below(es2.len() as u64) as usize); es2.swap(a, b); }
		for e in es2.iter_mut() { if rng.chance(1, 4) { e.id = rng.below(40); } }
		for t in [0u64, 3, 7, 20, 39, u64::MAX] { find_line(col, &es2, t); }
	}
}
