//! vharness: runs the implementation (path-dependent on /repo) on generated inputs and writes
//! one line per case: `<op> <args...> => <outcome>`; the OCaml model runner evaluates the same
//! `<op> <args...>` on the extracted Coq model and `check` compares the lines.
//! Spec-level checks (layer S) are done here directly against the implementation and reported in
//! `<out>/spec_violations.jsonl`.
#![allow(dead_code)]
mod util;
mod c17_json;
#[cfg(not(verif_nohooks))]
mod c18_vpl;
mod c16;
mod c19;
mod c20_cache;
mod indep;
#[cfg(not(verif_nohooks))]
mod pmcorr;
#[cfg(verif_nohooks)]
mod pmcorr {
	//! public-API-only build: no hook-based correspondence lines
	use crate::{indep, util::*};
	pub fn find_line(_: &mut Collector, _: &[indep::Entry], _: u64) {}
	pub fn lines(_: &mut Collector, _: &mut Rng, _: &[(u8, u32, u32)], _: bool) {}
	pub fn malformed_lines(_: &mut Collector, _: &mut Rng, _: usize) {}
}
mod crash;
mod c15_bbox;
mod c04_recompress;
mod c13_concurrent;
mod c14_stream;
mod formats;
mod http;
mod memsrc;
mod naming;
mod mvt;
mod pipeline;

use std::path::PathBuf;

pub struct Ctx {
	pub seed: u64,
	pub thorough: bool,
	pub out: PathBuf,
	pub replay: Option<String>,
}

fn main() {
	let args: Vec<String> = std::env::args().collect();
	if args.len() < 2 {
		eprintln!("usage: vharness <cmd> [--seed N] [--tier quick|thorough] [--out DIR] [--replay FILE]");
		std::process::exit(2);
	}
	let cmd = args[1].clone();
	let mut ctx = Ctx { seed: 1, thorough: false, out: PathBuf::from("."), replay: None };
	let mut i = 2;
	while i < args.len() {
		match args[i].as_str() {
			"--seed" => { ctx.seed = args[i + 1].parse().expect("seed"); i += 2; }
			"--tier" => { ctx.thorough = args[i + 1] == "thorough"; i += 2; }
			"--out" => { ctx.out = PathBuf::from(&args[i + 1]); i += 2; }
			"--replay" => { ctx.replay = Some(args[i + 1].clone()); i += 2; }
			x => { eprintln!("unknown argument {x}"); std::process::exit(2); }
		}
	}
	std::fs::create_dir_all(&ctx.out).expect("create out dir");
	// silence panic messages from catch_unwind'ed probes
	if std::env::var("VERIF_PANIC_VERBOSE").is_err() { std::panic::set_hook(Box::new(|info| { if let Some(l) = info.location() { *util::LAST_PANIC_LOC.lock().unwrap() = format!("{}:{}", l.file().trim_start_matches("/repo/"), l.line()); } })); }
	let res = match cmd.as_str() {
		"c20" => c20_cache::run(&ctx),
		"c15" => c15_bbox::run(&ctx),
		"c14" => c14_stream::run(&ctx),
		"c17" => c17_json::run(&ctx),
		"c16" => c16::run(&ctx),
		"c19" => c19::run(&ctx),
		"c19child" => { let r = ctx.replay.clone().unwrap_or_default(); let p: Vec<&str> = r.split_whitespace().collect(); c19::child(p[0], ctx.seed, p[1].parse().unwrap(), p[2].parse().unwrap(), &ctx.out) }
		"c12" => crash::run(&ctx),
		"c10" | "c11" | "mvt" => mvt::run(&ctx, &cmd),
		#[cfg(not(verif_nohooks))]
		"c18" => c18_vpl::run(&ctx),
		"c04" => c04_recompress::run(&ctx),
		"c05" => http::run_c05(&ctx),
		"c07" => http::run_c07(&ctx),
		"formats" => formats::run(&ctx, &cmd),
		"c13" => c13_concurrent::run(&ctx),
		"c13probe" => c13_concurrent::probe(ctx.replay.as_deref().unwrap_or("")),
		"pipe" | "c08" | "c09" => pipeline::run(&ctx, &cmd),
		"c06" => (|| { let mut col = util::Collector::new(&ctx.out)?; pipeline::run_into(&ctx, &cmd, &mut col)?; http::run_c06_server(&ctx, &mut col)?; col.finish() })(),
		// C02 / C03: pipeline operators (model-compared) + container readers (spec level)
		"c02" | "c03" => (|| { let mut col = util::Collector::new(&ctx.out)?; pipeline::run_into(&ctx, &cmd, &mut col)?; mvt::run_stream_vs_lookup(&ctx, &mut col)?; formats::run_into(&ctx, &cmd, &mut col)?; if cmd == "c03" { c16::run_into(&ctx, &mut col, false)?; } col.finish() })(),
		"c01" => formats::run(&ctx, &cmd),
		x => { eprintln!("unknown command {x}"); std::process::exit(2); }
	};
	if let Err(e) = res {
		eprintln!("harness error: {e:?}");
		std::process::exit(3);
	}
}
